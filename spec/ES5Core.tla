------------------------------ MODULE ES5Core -------------------------------
(* A definitional interpreter for ES5 (non-strict) programs given as         *)
(* abstract syntax trees: clauses 8.7 (references), 8.9 (completions), 10    *)
(* (environments, declaration binding instantiation, arguments object),      *)
(* 11 (expressions), 12 (statements, with the completion-VALUE rules),       *)
(* 13 (function objects, [[Call]], [[Construct]]), 15.3.4.3-5                *)
(* (call/apply/bind), 15.3.5.3 ([[HasInstance]]), 10.4.2 (eval code).        *)
(*                                                                           *)
(* State st = [H: heap (sequence of ObjModel objects), E: environment        *)
(* records, log: host-function calls, fuel].  Expression results are         *)
(* [st, v, thr] with thr = "" | "throw" (v = thrown value) | "undecided"     *)
(* (the program left the modelled fragment: the judge skips it).             *)
(* Statement results are completions [st, ty, v, tg] exactly as in 8.9       *)
(* (v may be Empty).                                                         *)
EXTENDS NumText, TLC
CONSTANT Dev
D(x) == x \in Dev

OM  == INSTANCE ObjModel
OPS == INSTANCE Ops

Empty == [t |-> "empty"]
IsO(v) == v.t = "obj"

(* Source positions and the call stack (property C19).  All of it is optional: a node  *)
(* may carry "pos" (offset of its first token in its source text, 1-based, in code     *)
(* units; for a member, call, assignment or binary expression that is the first token  *)
(* of its leftmost operand, grouping parentheses skipped; for `new` the first token of  *)
(* the constructor expression) and an eval node "file" (index of the eval source in    *)
(* the case's table of source texts; the program itself is file 1).  Trees without     *)
(* these fields (C01, C17, C18, C20) evaluate exactly as before.                        *)
(* st.fr is the stack of active calls, outermost first: [fn: declared name, nat: a      *)
(* built-in/host function, file, off: where execution stands in that frame = the       *)
(* position of the call (or other construct) it is evaluating; 0 = none yet; of: the    *)
(* file in which off was measured (differs from file only under a named deviation)].    *)
Pos(node) == IF "pos" \in DOMAIN node THEN node.pos ELSE 0
FileOf(node) == IF "file" \in DOMAIN node THEN node.file ELSE 1
UserFrame(name, file) == [fn |-> name, nat |-> FALSE, file |-> file, of |-> file, off |-> 0]
NativeFrame == [fn |-> <<>>, nat |-> TRUE, file |-> 0, of |-> 0, off |-> 0]
PushFrame(st, f) == [st EXCEPT !.fr = Append(@, f)]
(* the running frame now stands at (cx.file, off).  D19_eval_leaves_frame_file: otto   *)
(* keeps a file per frame which only function entry and eval code set (see "eval")      *)
SetSite(st, cx, off) ==
    [st EXCEPT !.fr[Len(st.fr)] = [@ EXCEPT !.off = off, !.of = cx.file, !.file = IF D("D19_eval_leaves_frame_file") THEN @ ELSE cx.file]]
(* the stack trace an error object captures when it is created: innermost frame first,  *)
(* then the callers, at most st.tlimit frames when the limit is positive (otto.          *)
(* SetStackTraceLimit; 0 or negative = no limit).  A frame whose off is negative exists *)
(* only under D19_nonref_callee_site_dropped: such a caller is left out of the trace     *)
(* (yet counted against the limit).                                                     *)
RECURSIVE OuterFrames(_, _, _)
OuterFrames(fr, i, lim) ==
    IF i = 0 \/ lim - 1 = 0 THEN <<>>
    ELSE (IF fr[i].off >= 0 THEN <<fr[i]>> ELSE <<>>) \o OuterFrames(fr, i - 1, lim - 1)
CaptureTrace(st) == <<st.fr[Len(st.fr)]>> \o OuterFrames(st.fr, Len(st.fr) - 1, st.tlimit)

(* well-known object ids of the initial heap *)
ObjectProto == 1
FunctionProto == 2
GlobalObj == 3
ArrayProto == 4
ErrorProto == 5
HostH == 6
GlobalEnv == 1

U(str) == str          \* names are code-unit sequences; constants come from StrConst

S_H == <<72>>
S_push == <<112, 117, 115, 104>>
S_hasOwnProperty == <<104, 97, 115, 79, 119, 110, 80, 114, 111, 112, 101, 114, 116, 121>>

ObjectFns == <<[n |-> <<103,101,116,80,114,111,116,111,116,121,112,101,79,102>>, f |-> "O_getPrototypeOf", len |-> 1],
               [n |-> <<107,101,121,115>>, f |-> "O_keys", len |-> 1],
               [n |-> <<103,101,116,79,119,110,80,114,111,112,101,114,116,121,78,97,109,101,115>>, f |-> "O_getOwnPropertyNames", len |-> 1],
               [n |-> <<105,115,69,120,116,101,110,115,105,98,108,101>>, f |-> "O_isExtensible", len |-> 1],
               [n |-> <<105,115,83,101,97,108,101,100>>, f |-> "O_isSealed", len |-> 1],
               [n |-> <<105,115,70,114,111,122,101,110>>, f |-> "O_isFrozen", len |-> 1],
               [n |-> <<112,114,101,118,101,110,116,69,120,116,101,110,115,105,111,110,115>>, f |-> "O_preventExtensions", len |-> 1],
               [n |-> <<115,101,97,108>>, f |-> "O_seal", len |-> 1],
               [n |-> <<102,114,101,101,122,101>>, f |-> "O_freeze", len |-> 1],
               [n |-> <<99,114,101,97,116,101>>, f |-> "O_create", len |-> 2],
               [n |-> <<103,101,116,79,119,110,80,114,111,112,101,114,116,121,68,101,115,99,114,105,112,116,111,114>>, f |-> "O_getOwnPropertyDescriptor", len |-> 2],
               [n |-> <<100,101,102,105,110,101,80,114,111,112,101,114,116,121>>, f |-> "O_defineProperty", len |-> 3]>>
ObjectFnNames == {ObjectFns[i].f : i \in 1..Len(ObjectFns)}
Id_ObjectFn(i) == 28 + i         \* after the native error constructors and prototypes (17..28)
Id_Eval == 28 + Len(ObjectFns) + 1
Id_CB == Id_Eval + 1
Id_SL == Id_CB + 1
Id_Thrower == Id_SL + 1
S_SL == <<83, 76>>
S_CB == <<67, 66>>
S_defineProperties == <<100,101,102,105,110,101,80,114,111,112,101,114,116,105,101,115>>

ErrorNames == <<S_Error, S_TypeError, S_ReferenceError, S_RangeError, S_SyntaxError, S_EvalError, S_URIError>>

-----------------------------------------------------------------------------
(* results *)
Ok(st, v)   == [st |-> st, v |-> v, thr |-> ""]
Thr(st, v)  == [st |-> st, v |-> v, thr |-> "throw"]
Und(st)     == [st |-> st, v |-> Undef, thr |-> "undecided"]
Comp(st, ty, v, tg) == [st |-> st, ty |-> ty, v |-> v, tg |-> tg]
Normal(st, v) == Comp(st, "normal", v, <<>>)
FromExpr(r) == IF r.thr = "" THEN Normal(r.st, r.v)
               ELSE IF r.thr = "throw" THEN Comp(r.st, "throw", r.v, <<>>)
               ELSE Comp(r.st, r.thr, Undef, <<>>)          \* "undecided" or "interrupt"
Fatal(ty) == ty \in {"undecided", "interrupt"}          \* completions no script code can intercept
Intr(st) == [st |-> st, v |-> Undef, thr |-> "interrupt"]

-----------------------------------------------------------------------------
(* heap *)
Alloc(st, obj) == [st |-> [st EXCEPT !.H = Append(@, obj)], id |-> Len(st.H) + 1]
SetH(st, H) == [st EXCEPT !.H = H]

DefData(H, o, p, v, w, e, c) == OM!SetProp(H, o, p, OM!DataP(v, w, e, c))

NewPlain(st, proto) == Alloc(st, OM!NewObj("Object", proto))

IsCallableV(st, v) == IsO(v) /\ st.H[v.id].cls = "Function"

(* native error objects (15.11.6): a fresh object whose prototype is the     *)
(* constructor's prototype object                                            *)
ErrProtoId(st, name) ==      \* the prototype object of the named error constructor
    LET g == OM!GetProp(st.H, GlobalObj, name)
        c == g.d.v
        p == OM!GetProp(st.H, c.id, S_prototype)
    IN  p.d.v.id
(* an Error instance remembers the trace captured at its creation and (for the named    *)
(* deviation D19_error_text_from_construction) the name and message it was created with; *)
(* raw (for D19_internal_error_text_static_name): raised by the interpreter itself and   *)
(* not yet seen by any try statement                                                     *)
ErrObj(st, protoId, cname, cmsg) ==
    [OM!NewObj("Error", protoId) EXCEPT !.fn = [k |-> "error", trace |-> CaptureTrace(st), cname |-> cname, cmsg |-> cmsg, raw |-> FALSE]]
MkError(st, name, msg) ==
    LET a == Alloc(st, ErrObj(st, ErrProtoId(st, name), name, StrV(msg)))
        H2 == IF msg = <<>> THEN a.st.H ELSE DefData(a.st.H, a.id, S_message, StrV(msg), TRUE, FALSE, TRUE)
    IN  [st |-> SetH(a.st, H2), v |-> ObjV(a.id)]
(* errors raised by the interpreter itself: ES5 does not specify the message text, *)
(* so the message is "unmodelled": a program that looks at it becomes undecided     *)
ThrowErr(st, name) ==
    LET e == MkError(st, name, <<>>)
        H2 == DefData(e.st.H, e.v.id, S_message, [t |-> "unmodelled"], TRUE, FALSE, TRUE)
    IN  Thr([SetH(e.st, H2) EXCEPT !.H[e.v.id].fn.cmsg = [t |-> "unmodelled"], !.H[e.v.id].fn.raw = TRUE], e.v)
(* the same, raised while evaluating the construct at (cx.file, off): the innermost     *)
(* frame of the trace stands there (the frame itself is not moved)                      *)
ThrowErrAt(st, cx, name, off) ==
    LET t == ThrowErr(SetSite(st, cx, off), name) IN [t EXCEPT !.st.fr = st.fr]
(* D19_array_length_rangeerror_no_message: an error created with the empty message text *)
(* (which D19_empty_message_undefined turns into the value undefined)                    *)
ThrowErrNoMsg(st, name) ==
    LET e == MkError(st, name, <<>>)
    IN  Thr([SetH(e.st, DefData(e.st.H, e.v.id, S_message, IF D("D19_empty_message_undefined") THEN Undef ELSE StrV(<<>>), TRUE, FALSE, TRUE))
                 EXCEPT !.H[e.v.id].fn.raw = TRUE], e.v)

-----------------------------------------------------------------------------
RECURSIVE Eval(_, _, _)            \* (node, cx, st) -> [st, v, thr]
RECURSIVE EvalBody(_, _, _)
RECURSIVE EvalRef(_, _, _)         \* (node, cx, st) -> [st, ref, thr, v]
RECURSIVE EvalArgs(_, _, _, _, _)  \* (nodes, i, cx, st, acc)
RECURSIVE Exec(_, _, _, _)         \* (stmt, cx, st, labels) -> completion
RECURSIVE ExecBody(_, _, _, _)
RECURSIVE ExecList(_, _, _, _, _)  \* (stmts, i, cx, st, V)
RECURSIVE Call(_, _, _, _)         \* (st, f (object value), this, args)
RECURSIVE CallIn(_, _, _, _)
RECURSIVE Construct(_, _, _)       \* (st, f, args)
RECURSIVE ToPrim(_, _, _)          \* (st, v, hint)
RECURSIVE RunBody(_, _, _, _)      \* (st, body, cx, isEval)  10.5 + statement list
RECURSIVE LoopFor(_, _, _, _, _, _)
RECURSIVE LoopWhile(_, _, _, _, _, _)
RECURSIVE LoopForIn(_, _, _, _, _, _, _)
RECURSIVE CaseSearch(_, _, _, _, _, _)
RECURSIVE CaseRun(_, _, _, _, _, _)
RECURSIVE BindFns(_, _, _, _, _, _)
RECURSIVE HasInstance(_, _, _)
RECURSIVE ArrJoin(_, _, _, _, _)

-----------------------------------------------------------------------------
(* property access on objects, with the arguments-object parameter map (10.6) *)
IsArgsObj(st, o) == st.H[o].fn.k = "args"
MappedName(st, o, p) == IF IsArgsObj(st, o) /\ p \in DOMAIN st.H[o].fn.map THEN st.H[o].fn.map[p] ELSE <<>>

EnvGetBinding(st, e, n) == st.E[e].b[n].v
EnvSetBinding(st, e, n, v) == [st EXCEPT !.E[e].b[n].v = v]

(* [[Get]] *)
ObjGet(st, o, p) ==
    LET mp == MappedName(st, o, p)
    IN  IF mp # <<>> /\ OM!HasOwn(st.H, o, p) THEN Ok(st, EnvGetBinding(st, st.H[o].fn.env, mp))
        ELSE LET r == OM!GetReq(st.H, o, p, ObjV(o))
             IN  IF r.k = "val" THEN Ok(st, r.v) ELSE Call(st, r.f, r.this, <<>>)      \* 8.12.3: getter

(* properties of the built-in objects that exist in every implementation but *)
(* are not modelled here: touching one leaves the modelled fragment          *)
Unmodelled(st, o, p) ==
    LET g == OM!GetProp(st.H, o, p)
    IN  g.has /\ g.d.k = "data" /\ g.d.v = [t |-> "unmodelled"]

(* [[Put]] (throw = false) *)
ObjPut(st, o, p, v) ==
    LET mp == MappedName(st, o, p)
        st1 == IF mp # <<>> /\ OM!HasOwn(st.H, o, p) THEN EnvSetBinding(st, st.H[o].fn.env, mp, v) ELSE st
        r == OM!PutReq(st1.H, o, p, v, ObjV(o))
    IN  IF r.k = "call" THEN (LET c == Call(st1, r.f, r.this, r.args) IN IF c.thr # "" THEN c ELSE Ok(c.st, v))   \* 8.12.5: setter
        ELSE IF r.thr = "RangeError"                                \* 15.4.5.1 step 3.d
             THEN (IF D("D19_array_length_rangeerror_no_message") THEN ThrowErrNoMsg(SetH(st1, r.H), S_RangeError)
                   ELSE ThrowErr(SetH(st1, r.H), S_RangeError))
        ELSE IF r.thr # "" THEN Und(st)
        ELSE Ok(SetH(st1, r.H), v)

ObjDelete(st, o, p) ==
    LET r == OM!DeleteOwn(st.H, o, p)
        st1 == SetH(st, r.H)
        st2 == IF r.ok /\ IsArgsObj(st, o) /\ p \in DOMAIN st.H[o].fn.map
               THEN [st1 EXCEPT !.H[o].fn.map = [x \in (DOMAIN @) \ {p} |-> @[x]]] ELSE st1
    IN  [st |-> st2, ok |-> r.ok]

-----------------------------------------------------------------------------
(* 10.2 environments *)
NewDeclEnv(st, outer) ==
    [st |-> [st EXCEPT !.E = Append(@, [k |-> "decl", b |-> <<>>, outer |-> outer])], id |-> Len(st.E) + 1]
NewObjEnv(st, o, outer, withThis) ==
    [st |-> [st EXCEPT !.E = Append(@, [k |-> "obj", o |-> o, withThis |-> withThis, outer |-> outer])], id |-> Len(st.E) + 1]

HasBinding(st, e, n) ==
    IF st.E[e].k = "decl" THEN n \in DOMAIN st.E[e].b ELSE OM!HasProperty(st.H, st.E[e].o, n)

CreateBinding(st, e, n, v, del, mut) ==      \* declarative env
    [st EXCEPT !.E[e].b = (n :> [v |-> v, del |-> del, mut |-> mut]) @@ @]

(* 10.2.2.1 GetIdentifierReference *)
RECURSIVE IdRef(_, _, _)
IdRef(st, e, n) ==
    IF e = 0 THEN [k |-> "unres", n |-> n]
    ELSE IF HasBinding(st, e, n) THEN
        (IF st.E[e].k = "decl" THEN [k |-> "env", e |-> e, n |-> n]
         ELSE [k |-> "prop", base |-> ObjV(st.E[e].o), n |-> n, envobj |-> TRUE, withThis |-> st.E[e].withThis])
    ELSE IdRef(st, st.E[e].outer, n)

(* 8.7.1 GetValue *)
GetValue(st, ref) ==
    CASE ref.k = "unres" -> ThrowErr(st, S_ReferenceError)
      [] ref.k = "env" -> Ok(st, EnvGetBinding(st, ref.e, ref.n))
      [] ref.k = "prop" ->
            IF IsO(ref.base) THEN
                (IF Unmodelled(st, ref.base.id, ref.n) THEN Und(st) ELSE ObjGet(st, ref.base.id, ref.n))
            ELSE IF ref.base.t = "str" /\ ref.n = S_length THEN Ok(st, IntV(Len(ref.base.s)))
            ELSE IF ref.base.t = "num" /\ st.numproto # 0 /\ OM!HasOwn(st.H, st.numproto, ref.n)
                 THEN ObjGet(st, st.numproto, ref.n)            \* 8.7.1 step 4 with the (partly) modelled Number.prototype
            ELSE Und(st)

(* 8.7.2 PutValue (non-strict) *)
PutValue(st, ref, v) ==
    CASE ref.k = "unres" -> ObjPut(st, GlobalObj, ref.n, v)
      [] ref.k = "env" -> IF st.E[ref.e].b[ref.n].mut THEN Ok(EnvSetBinding(st, ref.e, ref.n, v), v) ELSE Ok(st, v)
      [] ref.k = "prop" -> IF IsO(ref.base) THEN ObjPut(st, ref.base.id, ref.n, v) ELSE Und(st)

-----------------------------------------------------------------------------
(* 13.2 Creating function objects *)
MakeFunction(st, params, body, scope, name, file) ==
    LET f == Alloc(st, [OM!NewObj("Function", FunctionProto) EXCEPT
                          !.fn = [k |-> "user", params |-> params, body |-> body, scope |-> scope, name |-> name, file |-> file]])
        p == Alloc(f.st, OM!NewObj("Object", ObjectProto))
        H1 == DefData(p.st.H, f.id, S_length, IntV(Len(params)), FALSE, FALSE, FALSE)
        H2 == DefData(H1, p.id, S_constructor, ObjV(f.id), TRUE, FALSE, TRUE)
        H3 == DefData(H2, f.id, S_prototype, ObjV(p.id), TRUE, FALSE, FALSE)
    IN  [st |-> SetH(p.st, H3), v |-> ObjV(f.id)]

(* 10.5 helpers: names declared by var / function declarations directly in a *)
(* body (not inside nested functions), in source order                        *)
RECURSIVE VarsOfStmt(_)
RECURSIVE VarsOfList(_, _)
VarsOfList(l, i) == IF i > Len(l) THEN <<>> ELSE VarsOfStmt(l[i]) \o VarsOfList(l, i + 1)
RECURSIVE VarsOfCases(_, _)
VarsOfCases(cs, i) == IF i > Len(cs) THEN <<>> ELSE VarsOfList(cs[i].body, 1) \o VarsOfCases(cs, i + 1)
VarsOfStmt(s) ==
    CASE s.k = "var" -> [i \in 1..Len(s.decls) |-> s.decls[i].n]
      [] s.k \in {"block"} -> VarsOfList(s.body, 1)
      [] s.k = "if" -> VarsOfStmt(s.a) \o VarsOfList(s.b, 1)
      [] s.k = "for" -> (IF s.init # <<>> /\ s.init[1].k = "var" THEN VarsOfStmt(s.init[1]) ELSE <<>>) \o VarsOfStmt(s.body)
      [] s.k = "forin" -> (IF s.decl THEN <<s.n>> ELSE <<>>) \o VarsOfStmt(s.body)
      [] s.k \in {"while", "dowhile", "label", "with"} -> VarsOfStmt(s.body)
      [] s.k = "try" -> VarsOfList(s.block, 1) \o VarsOfList(s.handler, 1) \o VarsOfList(s.fin, 1)
      [] s.k = "switch" -> VarsOfCases(s.cases, 1)
      [] OTHER -> <<>>
FunDecls(body) == SelectSeq(body, LAMBDA s : s.k = "fdecl")

-----------------------------------------------------------------------------
(* value conversions that may run script code are below, after Call          *)

ClassStr(c) == <<91, 111, 98, 106, 101, 99, 116, 32>> \o c \o <<93>>      \* "[object " c "]"
ClassUnits(cls) ==
    CASE cls = "Object" -> S_Object [] cls = "Function" -> S_Function [] cls = "Array" -> S_Array
      [] cls = "Error" -> S_Error [] cls = "Arguments" -> S_Arguments [] OTHER -> S_Object

TypeOfV(st, v) == IF IsO(v) THEN (IF st.H[v.id].cls = "Function" THEN S_function ELSE S_object) ELSE TypeOfPrim(v)

(* the value a host function call logs: primitives as they are, objects by class *)
Proj(st, v) == IF IsO(v) THEN [t |-> "obj", cls |-> st.H[v.id].cls] ELSE v
ProjSeq(st, vs) == [i \in 1..Len(vs) |-> Proj(st, vs[i])]

SeqGet(s, i) == IF i <= Len(s) THEN s[i] ELSE Undef

-----------------------------------------------------------------------------
(* 8.12.8 / 9.1 on real objects *)
TryMethod(st, o, name) ==          \* [done, r]
    LET g == GetValue(st, [k |-> "prop", base |-> ObjV(o), n |-> name])
    IN  IF g.thr # "" THEN [done |-> TRUE, r |-> g]
        ELSE IF ~IsCallableV(g.st, g.v) THEN [done |-> FALSE, r |-> g]
        ELSE LET c == Call(g.st, g.v, ObjV(o), <<>>)
             IN  IF c.thr # "" THEN [done |-> TRUE, r |-> c]
                 ELSE IF IsO(c.v) THEN [done |-> FALSE, r |-> c]
                 ELSE [done |-> TRUE, r |-> c]
ToPrim(st, v, hint) ==
    IF ~IsO(v) THEN Ok(st, v)
    ELSE LET first  == IF hint = "string" THEN S_toString ELSE S_valueOf
             second == IF hint = "string" THEN S_valueOf ELSE S_toString
             a == TryMethod(st, v.id, first)
         IN  IF a.done THEN a.r
             ELSE LET b == TryMethod(a.r.st, v.id, second)
                  IN  IF b.done THEN b.r ELSE ThrowErr(b.r.st, S_TypeError)

ToStr(st, v) ==
    LET p == ToPrim(st, v, "string") IN IF p.thr # "" THEN p ELSE Ok(p.st, StrV(OPS!ToStringPrim(p.v)))
ToNum(st, v) ==
    LET p == ToPrim(st, v, "number") IN IF p.thr # "" THEN p ELSE Ok(p.st, NumV(ToNumberPrim(p.v)))

(* 9.9 ToObject for property access bases *)
PropName(st, v) == ToStr(st, v)

(* Array.prototype.join for toString of arrays (15.4.4.2, 15.4.4.5) *)
ArrJoin(st, o, i, len, acc) ==
    IF i >= len THEN Ok(st, StrV(acc))
    ELSE LET g == ObjGet(st, o, DigitsNat(i))
         IN  IF g.thr # "" THEN g
             ELSE LET s == IF g.v.t \in {"undef", "null"} THEN Ok(g.st, StrV(<<>>)) ELSE ToStr(g.st, g.v)
                  IN  IF s.thr # "" THEN s
                      ELSE ArrJoin(s.st, o, i + 1, len, acc \o (IF i > 0 THEN <<44>> ELSE <<>>) \o s.v.s)

-----------------------------------------------------------------------------
(* 10.5 Declaration Binding Instantiation for function declarations *)
(* Instantiating a function declaration evaluates a function expression: a polling  *)
(* point.  An interrupt delivered there leaves the declarations made so far and      *)
(* sets st.aborted (the callers turn it into the "interrupt" completion).             *)
(* A pending interrupt is delivered at a polling point: the poll number st.abortAt (an     *)
(* injection point chosen by count, C18), or the first polling point reached after the     *)
(* host function H has been called st.abortLog times in this run (an interrupt SENT by the *)
(* host during that call, OttoAPI: the usual asynchronous use of the Interrupt channel).   *)
Aborts(st) == st.poll = st.abortAt \/ (st.abortLog > 0 /\ Len(st.log) >= st.abortLog)

BindFns(st0, fds, i, env, cx, configurable) ==
    IF i > Len(fds) THEN st0
    ELSE LET st == [st0 EXCEPT !.poll = @ + 1] IN
         IF Aborts(st) THEN [st EXCEPT !.aborted = TRUE]
    ELSE LET fd == fds[i]
             mk == MakeFunction(st, fd.params, fd.body, cx.lex, fd.name, cx.file)
             st1 == IF st.E[env].k = "decl"
                    THEN (IF fd.name \in DOMAIN mk.st.E[env].b
                          THEN EnvSetBinding(mk.st, env, fd.name, mk.v)
                          ELSE CreateBinding(mk.st, env, fd.name, mk.v, configurable, TRUE))
                    ELSE \* global object environment: 10.5 step 5.e-f
                         SetH(mk.st, DefData(mk.st.H, st.E[env].o, fd.name, mk.v, TRUE, TRUE, configurable))
         IN  BindFns(st1, fds, i + 1, env, cx, configurable)

RECURSIVE BindVars(_, _, _, _, _)
BindVars(st, names, i, env, configurable) ==
    IF i > Len(names) THEN st
    ELSE LET n == names[i]
             st1 == IF HasBinding(st, env, n) THEN st
                    ELSE IF st.E[env].k = "decl" THEN CreateBinding(st, env, n, Undef, configurable, TRUE)
                    ELSE SetH(st, DefData(st.H, st.E[env].o, n, Undef, TRUE, TRUE, configurable))
         IN  BindVars(st1, names, i + 1, env, configurable)

RunBody(st, body, cx, isEval) ==
    LET st1 == BindFns(st, FunDecls(body), 1, cx.var, cx, isEval)
        st2 == BindVars(st1, VarsOfList(body, 1), 1, cx.var, isEval)
    IN  IF st1.aborted THEN Comp([st1 EXCEPT !.aborted = FALSE], "interrupt", Undef, <<>>)
        ELSE ExecList(body, 1, cx, st2, Empty)

(* 10.6 arguments object *)
MakeArguments(st, f, args, env, params) ==
    LET a == Alloc(st, [OM!NewObj("Arguments", ObjectProto) EXCEPT !.cls = "Arguments"])
        idxs == 1..Len(args)
        \* 10.6 step 11 walks the ARGUMENT indexes from the last to the first: among the formal
        \* parameters that received an argument, the last one of a given name wins the mapping
        nMap == IF Len(params) < Len(args) THEN Len(params) ELSE Len(args)
        mapped == {i \in 1..nMap : ~\E j \in (i + 1)..nMap : params[j] = params[i]}
        RECURSIVE Fill(_, _)
        Fill(H, i) == IF i > Len(args) THEN H ELSE Fill(DefData(H, a.id, DigitsNat(i - 1), args[i], TRUE, TRUE, TRUE), i + 1)
        H1 == DefData(a.st.H, a.id, S_length, IntV(Len(args)), TRUE, FALSE, TRUE)
        H2 == Fill(H1, 1)
        H3 == DefData(H2, a.id, S_callee, ObjV(f), TRUE, FALSE, TRUE)
        map == [p \in {DigitsNat(i - 1) : i \in mapped} |-> params[CHOOSE i \in mapped : DigitsNat(i - 1) = p]]
    IN  [st |-> [SetH(a.st, H3) EXCEPT !.H[a.id].fn = [k |-> "args", env |-> env, map |-> map]], id |-> a.id]

RECURSIVE BindParams(_, _, _, _, _)
BindParams(st, params, args, i, env) ==
    IF i > Len(params) THEN st
    ELSE LET v == SeqGet(args, i)
             st1 == IF params[i] \in DOMAIN st.E[env].b THEN EnvSetBinding(st, env, params[i], v)
                    ELSE CreateBinding(st, env, params[i], v, FALSE, TRUE)
         IN  BindParams(st1, params, args, i + 1, env)

Truthy(v) == IsO(v) \/ ToBoolean(v)

(* helpers for the 15.2.3 Object constructor functions *)
RECURSIVE FillArray(_, _, _, _)
FillArray(H, o, vals, i) ==
    IF i > Len(vals) THEN H
    ELSE FillArray(OM!DefineOwn(H, o, DigitsNat(i - 1), OM!FullDataDesc(vals[i], TRUE, TRUE, TRUE)).H, o, vals, i + 1)
MakeArray(st, vals) ==
    LET a == Alloc(st, [OM!NewObj("Array", ArrayProto) EXCEPT !.cls = "Array"])
        H1 == DefData(a.st.H, a.id, S_length, IntV(0), TRUE, FALSE, FALSE)
    IN  Ok(SetH(a.st, FillArray(H1, a.id, vals, 1)), ObjV(a.id))

Field(st, o, name) ==          \* 8.10.5: [[HasProperty]] then [[Get]]
    IF OM!HasProperty(st.H, o, name)
    THEN (LET g == ObjGet(st, o, name) IN [st |-> g.st, has |-> TRUE, v |-> g.v, thr |-> g.thr])
    ELSE [st |-> st, has |-> FALSE, v |-> Undef, thr |-> ""]

(* 8.10.5 ToPropertyDescriptor: [st, thr, v (thrown), d] *)
ToPropDesc(st, dv) ==
    IF ~IsO(dv) THEN (LET t == ThrowErr(st, S_TypeError) IN [st |-> t.st, thr |-> "throw", v |-> t.v, d |-> OM!EmptyDesc])
    ELSE LET fe == Field(st, dv.id, S_enumerable)
             fc == Field(fe.st, dv.id, S_configurable)
             fv == Field(fc.st, dv.id, S_value)
             fw == Field(fv.st, dv.id, S_writable)
             fg == Field(fw.st, dv.id, S_get)
             fs == Field(fg.st, dv.id, S_set)
             firstBad == IF fe.thr # "" THEN fe ELSE IF fc.thr # "" THEN fc ELSE IF fv.thr # "" THEN fv
                         ELSE IF fw.thr # "" THEN fw ELSE IF fg.thr # "" THEN fg ELSE fs
             d == [hv |-> fv.has, v |-> fv.v, hw |-> fw.has, w |-> fw.has /\ Truthy(fw.v), he |-> fe.has, e |-> fe.has /\ Truthy(fe.v),
                   hc |-> fc.has, c |-> fc.has /\ Truthy(fc.v), hg |-> fg.has, g |-> fg.v, hs |-> fs.has, s |-> fs.v]
         IN  IF firstBad.thr # "" THEN [st |-> firstBad.st, thr |-> firstBad.thr, v |-> firstBad.v, d |-> OM!EmptyDesc]
             ELSE IF (d.hg /\ d.g # Undef /\ ~IsCallableV(fs.st, d.g)) \/ (d.hs /\ d.s # Undef /\ ~IsCallableV(fs.st, d.s))
                     \/ ((d.hg \/ d.hs) /\ (d.hv \/ d.hw))
                  THEN (LET t == ThrowErr(fs.st, S_TypeError) IN [st |-> t.st, thr |-> "throw", v |-> t.v, d |-> OM!EmptyDesc])
             ELSE [st |-> fs.st, thr |-> "", v |-> Undef, d |-> d]

(* 8.10.4 FromPropertyDescriptor *)
FromPropDesc(st, pr) ==
    LET o == NewPlain(st, ObjectProto)
        W(H, n, v) == DefData(H, o.id, n, v, TRUE, TRUE, TRUE)
        H1 == IF pr.k = "data" THEN W(W(o.st.H, S_value, pr.v), S_writable, BoolV(pr.w))
              ELSE W(W(o.st.H, S_get, pr.g), S_set, pr.s)
        H2 == W(W(H1, S_enumerable, BoolV(pr.e)), S_configurable, BoolV(pr.c))
    IN  Ok(SetH(o.st, H2), ObjV(o.id))

StrVals(names) == [i \in 1..Len(names) |-> StrV(names[i])]

ObjectFn(st, name, args) ==
    LET a1 == SeqGet(args, 1)
    IN  IF ~IsO(a1) /\ name # "O_create" THEN ThrowErr(st, S_TypeError)           \* 15.2.3.x step 1
        ELSE IF IsO(a1) /\ st.H[a1.id].cls = "Arguments" /\ name \notin {"O_defineProperty", "O_getOwnPropertyDescriptor"} THEN Und(st)
        ELSE CASE name = "O_getPrototypeOf" -> Ok(st, IF st.H[a1.id].proto = 0 THEN Null ELSE ObjV(st.H[a1.id].proto))
          [] name = "O_keys" -> MakeArray(st, StrVals(OM!OwnKeys(st.H, a1.id)))
          [] name = "O_getOwnPropertyNames" -> MakeArray(st, StrVals(OM!OwnNames(st.H, a1.id)))
          [] name = "O_isExtensible" -> Ok(st, BoolV(st.H[a1.id].ext))
          [] name = "O_isSealed" -> Ok(st, BoolV(OM!IsSealed(st.H, a1.id)))
          [] name = "O_isFrozen" -> Ok(st, BoolV(OM!IsFrozen(st.H, a1.id)))
          [] name = "O_preventExtensions" -> Ok(SetH(st, OM!PreventExt(st.H, a1.id)), a1)
          [] name = "O_seal" -> Ok(SetH(st, OM!Seal(st.H, a1.id)), a1)
          [] name = "O_freeze" -> Ok(SetH(st, OM!Freeze(st.H, a1.id)), a1)
          [] name = "O_create" ->
                IF a1.t # "null" /\ ~IsO(a1) THEN ThrowErr(st, S_TypeError)
                ELSE IF SeqGet(args, 2).t # "undef" THEN Und(st)
                ELSE (LET o == NewPlain(st, IF IsO(a1) THEN a1.id ELSE 0) IN Ok(o.st, ObjV(o.id)))
          [] name = "O_getOwnPropertyDescriptor" ->
                (LET k == ToStr(st, SeqGet(args, 2))
                 IN  IF k.thr # "" THEN k
                     ELSE IF ~OM!HasOwn(k.st.H, a1.id, k.v.s) THEN Ok(k.st, Undef)
                     ELSE IF Unmodelled(k.st, a1.id, k.v.s) THEN Und(k.st)
                     ELSE LET pr == OM!OwnProp(k.st.H, a1.id, k.v.s)
                              mp == MappedName(k.st, a1.id, k.v.s)         \* 10.6 [[GetOwnProperty]]: a mapped element shows the parameter's value
                          IN  FromPropDesc(k.st, IF mp # <<>> /\ pr.k = "data" THEN [pr EXCEPT !.v = EnvGetBinding(k.st, k.st.H[a1.id].fn.env, mp)] ELSE pr))
          [] name = "O_defineProperty" ->
                (LET k == ToStr(st, SeqGet(args, 2))
                 IN  IF k.thr # "" THEN k
                     ELSE LET d == ToPropDesc(k.st, SeqGet(args, 3))
                          IN  IF d.thr # "" THEN [st |-> d.st, v |-> d.v, thr |-> d.thr]
                              ELSE LET mp == MappedName(d.st, a1.id, k.v.s)
                                       \* a mapped arguments element holds the parameter's current value (10.6)
                                       cur == OM!OwnProp(d.st.H, a1.id, k.v.s)
                                       H0 == IF mp # <<>> /\ cur.k = "data"
                                             THEN OM!SetProp(d.st.H, a1.id, k.v.s, [cur EXCEPT !.v = EnvGetBinding(d.st, d.st.H[a1.id].fn.env, mp)])
                                             ELSE d.st.H
                                       r == OM!DefineOwn(H0, a1.id, k.v.s, d.d)
                                   IN  IF mp # <<>> /\ r.thr = "" /\ r.ok THEN
                                           \* 10.6 [[DefineOwnProperty]] step 5: an accessor descriptor or writable: false ends the
                                           \* mapping (the element keeps the value it has now); a value goes to the parameter
                                           (LET unmap == d.d.hg \/ d.d.hs \/ (d.d.hw /\ ~d.d.w)
                                                st1 == SetH(d.st, r.H)
                                                st2 == IF d.d.hv /\ ~(d.d.hg \/ d.d.hs) THEN EnvSetBinding(st1, st1.H[a1.id].fn.env, mp, d.d.v) ELSE st1
                                                st3 == IF unmap THEN [st2 EXCEPT !.H[a1.id].fn.map = [x \in (DOMAIN @) \ {k.v.s} |-> @[x]]] ELSE st2
                                            IN  Ok(st3, a1))
                                       ELSE IF r.thr = "RangeError"
                                       THEN (IF D("D19_array_length_rangeerror_no_message") THEN ThrowErrNoMsg(SetH(d.st, r.H), S_RangeError)
                                             ELSE ThrowErr(SetH(d.st, r.H), S_RangeError))
                                       ELSE IF r.thr # "" THEN Und(d.st)
                                       ELSE IF ~r.ok THEN ThrowErr(SetH(d.st, r.H), S_TypeError)
                                       ELSE Ok(SetH(d.st, r.H), a1))
          [] OTHER -> Und(st)

(* 13.2.1 [[Call]] *)
CallUser(st, fid, thisV, args) ==
    LET fn == st.H[fid].fn
        e  == NewDeclEnv(st, fn.scope)
        st1 == BindParams(e.st, fn.params, args, 1, e.id)
        cx == [lex |-> e.id, var |-> e.id, this |-> IF thisV.t \in {"undef", "null"} THEN ObjV(GlobalObj) ELSE thisV, file |-> fn.file]
        st2 == BindFns(st1, FunDecls(fn.body), 1, e.id, cx, FALSE)
        ao == MakeArguments(st2, fid, args, e.id, fn.params)
        st3 == IF S_arguments \in DOMAIN ao.st.E[e.id].b THEN st2
               ELSE CreateBinding(ao.st, e.id, S_arguments, ObjV(ao.id), FALSE, TRUE)
        st4 == BindVars(st3, VarsOfList(fn.body, 1), 1, e.id, FALSE)
        c == IF st2.aborted THEN Comp([st2 EXCEPT !.aborted = FALSE, !.fuel = @ - 1], "interrupt", Undef, <<>>)
             ELSE IF st4.fuel <= 0 THEN Comp(st4, "undecided", Undef, <<>>)
             ELSE ExecList(fn.body, 1, cx, [st4 EXCEPT !.fuel = @ - 1], Empty)
    IN  CASE c.ty = "return" -> Ok([c.st EXCEPT !.fuel = @ + 1], c.v)
          [] c.ty = "throw" -> Thr([c.st EXCEPT !.fuel = @ + 1], c.v)
          [] c.ty = "undecided" -> Und(c.st)
          [] c.ty = "interrupt" -> Intr(c.st)
          [] OTHER -> Ok([c.st EXCEPT !.fuel = @ + 1], Undef)

(* array-like to list for apply (15.3.4.3) *)
RECURSIVE ListFromArrayLike(_, _, _, _, _)
ListFromArrayLike(st, o, i, len, acc) ==
    IF i >= len THEN [st |-> st, l |-> acc, thr |-> ""]
    ELSE LET g == ObjGet(st, o, DigitsNat(i))
         IN  IF g.thr # "" THEN [st |-> g.st, l |-> acc, thr |-> g.thr]
             ELSE ListFromArrayLike(g.st, o, i + 1, len, Append(acc, g.v))

(* SetStackDepthLimit(L): the global context has depth 0; entering a function (script or     *)
(* native; a bound function adds nothing of its own) at depth d + 1 >= L raises RangeError.  *)
Call(st0, f, thisV, args) ==
    IF ~IsCallableV(st0, f) THEN ThrowErr(st0, S_TypeError)
    ELSE IF st0.H[f.id].fn.k # "bound" /\ st0.limit > 0 /\ st0.depth + 1 >= st0.limit THEN ThrowErr(st0, S_RangeError)
    ELSE LET fn == st0.H[f.id].fn
             \* the callee becomes the innermost active call (a bound function adds no frame of its own)
             st1 == IF fn.k = "bound" THEN st0
                    ELSE PushFrame([st0 EXCEPT !.depth = @ + 1], IF fn.k = "user" THEN UserFrame(fn.name, fn.file) ELSE NativeFrame)
             r == CallIn(st1, f, thisV, args)
         IN  [r EXCEPT !.st.depth = st0.depth, !.st.fr = st0.fr]

(* 15.4.4.18 Array.prototype.forEach, steps 7.a-7.c.ii *)
RECURSIVE ForEach(_, _, _, _, _, _)
ForEach(st, o, k, len, cb, t) ==
    IF k >= len THEN Ok(st, Undef)
    ELSE IF ~OM!HasProperty(st.H, o, DigitsNat(k)) THEN ForEach(st, o, k + 1, len, cb, t)
    ELSE LET g == OM!GetProp(st.H, o, DigitsNat(k))
         IN  IF g.d.k # "data" THEN Und(st)                  \* an accessor element: not modelled here
             ELSE LET c == Call(st, cb, t, <<g.d.v, IntV(k), ObjV(o)>>)
                  IN  IF c.thr # "" THEN c ELSE ForEach(c.st, o, k + 1, len, cb, t)

(* 15.12.3 JSON.stringify as far as C19 needs it: the abstract operations Str/JO/JA walk *)
(* the own enumerable properties depth first and throw a TypeError when a value is      *)
(* already on the stack (JO/JA step 1).  Only the question "is the structure cyclic" is *)
(* answered; everything else leaves the modelled fragment.                              *)
RECURSIVE JsonWalk(_, _, _)        \* -> "ok" | "cyclic" | "und"
RECURSIVE JsonWalkKeys(_, _, _, _, _)
JsonWalk(st, v, stack) ==
    IF ~IsO(v) THEN "ok"
    ELSE IF st.H[v.id].cls \notin {"Object", "Array"} \/ OM!HasProperty(st.H, v.id, S_toJSON) THEN "und"
    ELSE IF v.id \in stack THEN "cyclic"
    ELSE JsonWalkKeys(st, v.id, OM!OwnKeys(st.H, v.id), 1, stack \cup {v.id})
JsonWalkKeys(st, o, keys, i, stack) ==
    IF i > Len(keys) THEN "ok"
    ELSE LET pr == OM!OwnProp(st.H, o, keys[i])
         IN  IF pr.k # "data" THEN "und"
             ELSE LET r == JsonWalk(st, pr.v, stack)
                  IN  IF r # "ok" THEN r ELSE JsonWalkKeys(st, o, keys, i + 1, stack)

CallIn(st, f, thisV, args) ==
    LET fn == st.H[f.id].fn
    IN  CASE fn.k = "user" -> CallUser(st, f.id, thisV, args)
          [] fn.k = "host" ->
                \* a host function that panics (armed for its hpanic-th call of this run): the call is
                \* logged, then the panic value surfaces as a thrown value the script can catch; if
                \* nobody catches it the run ends abnormally (property C18)
                IF st.hpanic > 0 /\ Len(st.log) + 1 = st.hpanic
                THEN Thr([st EXCEPT !.log = Append(@, ProjSeq(st, args))], StrV(<<98, 111, 111, 109>>))      \* "boom"
                ELSE Ok([st EXCEPT !.log = Append(@, ProjSeq(st, args))], SeqGet(args, 1))
          [] fn.k = "hostcb" -> Call(st, SeqGet(args, 1), Undef, <<>>)      \* C19 host function CB(f): calls f() and returns its result
          [] fn.k = "hostmsg" ->       \* C19 probe M(e): "e.message is a non-empty string".  ES5 does not fix the
                                       \* message text of the errors the interpreter raises, C19 demands it is not empty.
             LET e == SeqGet(args, 1)
             IN  IF ~IsO(e) THEN Und(st)
                 ELSE LET g == OM!GetProp(st.H, e.id, S_message)
                      IN  IF ~g.has THEN Ok(st, BoolV(FALSE))
                          ELSE IF g.d.k # "data" THEN Und(st)                 \* an accessor: not modelled here
                          ELSE IF g.d.v.t = "unmodelled" THEN Ok(st, BoolV(TRUE))
                          ELSE Ok(st, BoolV(g.d.v.t = "str" /\ g.d.v.s # <<>>))
          [] fn.k = "hostlimit" ->          \* SetStackDepthLimit from a host function: the limit counts from the bottom of the
                                            \* stack, whatever the depth at which it is configured
                (LET n == SeqGet(args, 1)
                 IN  IF n.t = "num" /\ n.n.c = "int" /\ n.n.v >= 0 THEN Ok([st EXCEPT !.limit = n.n.v], Undef) ELSE Und(st))
          [] fn.k = "thrower" -> ThrowErr(st, S_TypeError)                    \* 13.2.3 step 8
          [] fn.k = "bound" -> Call(st, fn.target, fn.this, fn.args \o args)
          [] fn.k = "builtin" ->
             (CASE fn.name = "call" -> Call(st, thisV, SeqGet(args, 1), IF Len(args) > 1 THEN SubSeq(args, 2, Len(args)) ELSE <<>>)
                [] fn.name = "apply" ->
                      IF ~IsCallableV(st, thisV) THEN ThrowErr(st, S_TypeError)
                      ELSE IF SeqGet(args, 2).t \in {"undef", "null"} THEN Call(st, thisV, SeqGet(args, 1), <<>>)
                      ELSE IF ~IsO(args[2]) THEN ThrowErr(st, S_TypeError)
                      ELSE LET lv == ObjGet(st, args[2].id, S_length)
                           IN  IF lv.thr # "" THEN lv
                               ELSE IF lv.v.t # "num" \/ lv.v.n.c # "int" \/ lv.v.n.v < 0 \/ lv.v.n.v > 20 THEN Und(st)
                               ELSE LET l == ListFromArrayLike(lv.st, args[2].id, 0, lv.v.n.v, <<>>)
                                    IN  IF l.thr # "" THEN [st |-> l.st, v |-> Undef, thr |-> l.thr]
                                        ELSE Call(l.st, thisV, args[1], l.l)
                [] fn.name = "eval" ->            \* reached by call/apply/bind or through a value: an indirect eval
                      IF SeqGet(args, 1).t # "str" THEN Ok(st, SeqGet(args, 1))       \* 15.1.2.1 step 1
                      ELSE Und(st)                                                  \* the program text is known only at "eval" nodes
                [] fn.name = "bind" ->
                      IF ~IsCallableV(st, thisV) THEN ThrowErr(st, S_TypeError)
                      ELSE LET b == Alloc(st, [OM!NewObj("Function", FunctionProto) EXCEPT
                                        !.fn = [k |-> "bound", target |-> thisV, this |-> SeqGet(args, 1),
                                                args |-> IF Len(args) > 1 THEN SubSeq(args, 2, Len(args)) ELSE <<>>]])
                               tl == ObjGet(b.st, thisV.id, S_length)
                               n == IF tl.v.t = "num" /\ tl.v.n.c = "int"
                                    THEN (IF tl.v.n.v - (IF Len(args) > 1 THEN Len(args) - 1 ELSE 0) > 0
                                          THEN tl.v.n.v - (IF Len(args) > 1 THEN Len(args) - 1 ELSE 0) ELSE 0) ELSE 0
                               thr == [OM!EmptyDesc EXCEPT !.hg = TRUE, !.g = ObjV(Id_Thrower), !.hs = TRUE, !.s = ObjV(Id_Thrower),
                                                             !.he = TRUE, !.e = FALSE, !.hc = TRUE, !.c = FALSE]
                               H1 == DefData(b.st.H, b.id, S_length, IntV(n), FALSE, FALSE, FALSE)
                               H2 == OM!DefineOwn(H1, b.id, S_caller, thr).H               \* 15.3.4.5 steps 20-21
                               H3 == OM!DefineOwn(H2, b.id, S_arguments, thr).H
                           IN  Ok(SetH(b.st, H3), ObjV(b.id))
                [] fn.name = "OP_toString" ->
                      IF thisV.t = "undef" THEN Ok(st, StrV(ClassStr(<<85, 110, 100, 101, 102, 105, 110, 101, 100>>)))
                      ELSE IF thisV.t = "null" THEN Ok(st, StrV(ClassStr(<<78, 117, 108, 108>>)))
                      ELSE IF IsO(thisV) THEN Ok(st, StrV(ClassStr(ClassUnits(st.H[thisV.id].cls))))
                      ELSE Und(st)
                [] fn.name = "OP_valueOf" -> IF IsO(thisV) THEN Ok(st, thisV) ELSE Und(st)
                [] fn.name = "OP_hasOwnProperty" ->
                      IF ~IsO(thisV) THEN Und(st)
                      ELSE LET k == ToStr(st, SeqGet(args, 1))
                           IN  IF k.thr # "" THEN k ELSE Ok(k.st, BoolV(OM!HasOwn(k.st.H, thisV.id, k.v.s)))
                [] fn.name = "AP_toString" ->
                      IF ~IsO(thisV) \/ st.H[thisV.id].cls # "Array" THEN Und(st)
                      ELSE LET n == OM!ArrLen(st.H, thisV.id)
                           IN  IF n.c # "int" \/ n.v > 20 THEN Und(st) ELSE ArrJoin(st, thisV.id, 0, n.v, <<>>)
                [] fn.name = "EP_toString" ->           \* 15.11.4.4
                      IF ~IsO(thisV) THEN ThrowErr(st, S_TypeError)
                      ELSE LET nm == ObjGet(st, thisV.id, S_name)
                               ns == IF nm.v.t = "undef" THEN Ok(nm.st, StrV(S_Error)) ELSE ToStr(nm.st, nm.v)
                           IN  IF ns.thr # "" THEN ns
                               ELSE LET mg == ObjGet(ns.st, thisV.id, S_message)
                                    IN  IF mg.v.t = "unmodelled" THEN Und(mg.st) ELSE
                                    LET ms == IF mg.v.t = "undef" THEN Ok(mg.st, StrV(<<>>)) ELSE ToStr(mg.st, mg.v)
                                    IN  IF ms.thr # "" THEN ms
                                        ELSE IF ns.v.s = <<>> THEN ms
                                        ELSE IF ms.v.s = <<>> THEN Ok(ms.st, ns.v)
                                        ELSE Ok(ms.st, StrV(ns.v.s \o <<58, 32>> \o ms.v.s))
                [] fn.name = "Object" ->
                      IF SeqGet(args, 1).t \in {"undef", "null"} THEN (LET o == NewPlain(st, ObjectProto) IN Ok(o.st, ObjV(o.id)))
                      ELSE IF IsO(args[1]) THEN Ok(st, args[1]) ELSE Und(st)
                [] fn.name = "ErrorCtor" -> Construct(st, f, args)      \* 15.11.1: same as new
                [] fn.name = "AP_forEach" ->                            \* 15.4.4.18 (arrays of at most 20 elements)
                      IF ~IsO(thisV) \/ st.H[thisV.id].cls # "Array" THEN Und(st)
                      ELSE LET n == OM!ArrLen(st.H, thisV.id)
                           IN  IF n.c # "int" \/ n.v > 20 THEN Und(st)
                               ELSE IF ~IsCallableV(st, SeqGet(args, 1)) THEN ThrowErr(st, S_TypeError)      \* step 4
                               ELSE ForEach(st, thisV.id, 0, n.v, args[1], SeqGet(args, 2))
                [] fn.name \in {"NP_toString", "NP_toFixed", "NP_toExponential", "NP_toPrecision"} ->
                      \* 15.7.4.2, .5, .6, .7 on finite Number primitives: only the argument check is modelled.
                      \* (ES5 permits an implementation to EXTEND the precision ranges; C19 generates only
                      \* arguments the implementation does not claim to support.)
                      IF thisV.t # "num" \/ thisV.n.c \notin {"int", "big", "nzero"} THEN Und(st)
                      ELSE LET a == SeqGet(args, 1)
                           IN  IF a.t # "num" \/ a.n.c # "int" THEN Und(st)              \* ToInteger of small integers only
                               ELSE LET an == Ok(st, a)
                                    IN  IF an.thr # "" THEN an
                                        ELSE LET i == an.v.n.v
                                                 bad == CASE fn.name = "NP_toString" -> i < 2 \/ i > 36          \* 15.7.4.2
                                                          [] fn.name = "NP_toFixed" -> i < 0 \/ i > 20           \* 15.7.4.5 step 2
                                                          [] fn.name = "NP_toExponential" -> i < 0 \/ i > 20     \* 15.7.4.6 step 7
                                                          [] OTHER -> i < 1 \/ i > 21                           \* 15.7.4.7 step 8
                                             IN  IF bad THEN ThrowErr(an.st, S_RangeError) ELSE Und(an.st)
                [] fn.name = "JSON_stringify" ->                        \* 15.12.3 (cyclic structures only)
                      IF Len(args) # 1 THEN Und(st)
                      ELSE IF JsonWalk(st, args[1], {}) = "cyclic" THEN ThrowErr(st, S_TypeError) ELSE Und(st)
                [] fn.name = "FunctionCtor" -> Und(st)                  \* only through the "fnctor" node
                [] fn.name \in ObjectFnNames -> ObjectFn(st, fn.name, args)
                [] OTHER -> Und(st))
          [] OTHER -> Und(st)

(* 13.2.2 [[Construct]] *)
Construct(st, f, args) ==
    IF ~IsCallableV(st, f) THEN ThrowErr(st, S_TypeError)
    ELSE LET fn == st.H[f.id].fn
    IN  CASE fn.k = "user" ->
             LET pr == ObjGet(st, f.id, S_prototype)
                 o  == NewPlain(pr.st, IF IsO(pr.v) THEN pr.v.id ELSE ObjectProto)
                 r  == Call(o.st, f, ObjV(o.id), args)
             IN  IF r.thr # "" THEN r ELSE IF IsO(r.v) THEN r ELSE Ok(r.st, ObjV(o.id))
          [] fn.k = "bound" -> Construct(st, fn.target, fn.args \o args)       \* 15.3.4.5.2
          [] fn.k = "builtin" /\ fn.name = "Object" -> Call(st, f, Undef, args)
          [] fn.k = "builtin" /\ fn.name = "ErrorCtor" ->
             IF st.limit > 0 /\ st.depth + 1 >= st.limit THEN ThrowErr(st, S_RangeError)     \* a native constructor is a call too
             ELSE
             LET stD == [st EXCEPT !.depth = @ + 1]
                 m == IF SeqGet(args, 1).t = "undef" THEN Ok(stD, StrV(<<>>)) ELSE ToStr(stD, args[1])
             IN  IF m.thr # "" THEN [m EXCEPT !.st.depth = st.depth]
                 ELSE LET a == Alloc(m.st, ErrObj(m.st, fn.proto, IF fn.proto = ErrorProto THEN S_Error ELSE ErrorNames[1 + (fn.proto - 16) \div 2], m.v))
                          \* 15.11.2.1: message is ToString(argument).  D19_empty_message_undefined: otto stores
                          \* the value undefined when that string is empty
                          H2 == IF SeqGet(args, 1).t = "undef" THEN a.st.H
                                ELSE DefData(a.st.H, a.id, S_message, IF m.v.s = <<>> /\ D("D19_empty_message_undefined") THEN Undef ELSE m.v, TRUE, FALSE, TRUE)
                      IN  Ok([SetH(a.st, H2) EXCEPT !.depth = st.depth], ObjV(a.id))
          [] OTHER -> IF fn.k \in {"host", "builtin"} THEN Und(st) ELSE ThrowErr(st, S_TypeError)

(* 15.3.5.3 / 15.3.4.5.3 *)
RECURSIVE ProtoChainHas(_, _, _)
ProtoChainHas(H, o, target) == IF o = 0 THEN FALSE ELSE IF o = target THEN TRUE ELSE ProtoChainHas(H, H[o].proto, target)
HasInstance(st, f, v) ==
    IF st.H[f.id].fn.k = "bound" THEN HasInstance(st, st.H[f.id].fn.target, v)
    ELSE IF ~IsO(v) THEN Ok(st, BoolV(FALSE))
    ELSE LET p == ObjGet(st, f.id, S_prototype)
         IN  IF p.thr # "" THEN p
             ELSE IF ~IsO(p.v) THEN ThrowErr(p.st, S_TypeError)
             ELSE Ok(p.st, BoolV(ProtoChainHas(p.st.H, p.st.H[v.id].proto, p.v.id)))

-----------------------------------------------------------------------------
(* 11: binary operators on evaluated operands *)
BinaryOp(st, op, l, r) ==
    CASE op = "===" -> Ok(st, BoolV(IF IsO(l) \/ IsO(r) THEN l = r ELSE StrictEq(l, r)))
      [] op = "!==" -> Ok(st, BoolV(~(IF IsO(l) \/ IsO(r) THEN l = r ELSE StrictEq(l, r))))
      [] op = "instanceof" ->
            IF ~IsO(r) THEN ThrowErr(st, S_TypeError)
            ELSE IF ~IsCallableV(st, r) THEN ThrowErr(st, S_TypeError)
            ELSE HasInstance(st, r, l)
      [] op = "in" ->
            IF ~IsO(r) THEN ThrowErr(st, S_TypeError)
            ELSE LET k == ToStr(st, l)
                 IN  IF k.thr # "" THEN k
                     ELSE IF Unmodelled(k.st, r.id, k.v.s) THEN Und(k.st)
                     ELSE Ok(k.st, BoolV(OM!HasProperty(k.st.H, r.id, k.v.s)))
      [] op \in {"==", "!="} ->
            LET neg == op = "!="
                fin(b) == BoolV(IF neg THEN ~b ELSE b)
            IN  IF IsO(l) /\ IsO(r) THEN Ok(st, fin(l = r))
                ELSE IF IsO(l) THEN
                    (IF r.t \in {"undef", "null"} THEN Ok(st, fin(FALSE))
                     ELSE LET p == ToPrim(st, l, "default")
                          IN  IF p.thr # "" THEN p ELSE (LET q == OPS!AbstractEq(p.v, r, <<>>) IN Ok(p.st, fin(q.v.b))))
                ELSE IF IsO(r) THEN
                    (IF l.t \in {"undef", "null"} THEN Ok(st, fin(FALSE))
                     ELSE LET p == ToPrim(st, r, "default")
                          IN  IF p.thr # "" THEN p ELSE (LET q == OPS!AbstractEq(l, p.v, <<>>) IN Ok(p.st, fin(q.v.b))))
                ELSE (LET q == OPS!AbstractEq(l, r, <<>>) IN Ok(st, fin(q.v.b)))
      [] OTHER ->
            LET hint == IF op = "+" THEN "default" ELSE "number"
                a == ToPrim(st, l, hint)
            IN  IF a.thr # "" THEN a
                ELSE LET b == ToPrim(a.st, r, hint)
                     IN  IF b.thr # "" THEN b
                         ELSE LET q == OPS!Binary(op, a.v, b.v, <<>>) IN Ok(b.st, q.v)

UnaryOp(st, op, v) ==
    CASE op = "!" -> Ok(st, BoolV(~(IsO(v) \/ ToBoolean(v))))
      [] op = "void" -> Ok(st, Undef)
      [] op = "typeof" -> Ok(st, StrV(TypeOfV(st, v)))
      [] OTHER -> LET a == ToNum(st, v)
                  IN  IF a.thr # "" THEN a ELSE (LET q == OPS!Unary(op, a.v, <<>>) IN Ok(a.st, q.v))


-----------------------------------------------------------------------------
(* 11: expressions *)
Site(st, cx, off) == IF off = 0 THEN st ELSE SetSite(st, cx, off)       \* trees without positions: nothing to record
(* 8.7.1 GetValue of the reference the expression `node` evaluated to (step 3: the      *)
(* ReferenceError is raised at that expression)                                          *)
GetValueAt(st, cx, ref, node) ==
    IF ref.k = "unres" THEN ThrowErrAt(st, cx, S_ReferenceError, Pos(node)) ELSE GetValue(st, ref)
Bad(node) == IF "bad" \in DOMAIN node THEN node.bad ELSE ""
(* the position a call or new expression records as its call site.                      *)
(* D19_nonref_callee_site_dropped: otto records one only when the callee expression is  *)
(* an identifier or a member expression (-1 otherwise)                                  *)
CallSite(node) == IF node.f.k \notin {"id", "dot", "idx"} /\ D("D19_nonref_callee_site_dropped") THEN -1 ELSE Pos(node)

EvalArgs(nodes, i, cx, st, acc) ==
    IF i > Len(nodes) THEN [st |-> st, l |-> acc, thr |-> "", v |-> Undef]
    ELSE LET r == Eval(nodes[i], cx, st)
         IN  IF r.thr # "" THEN [st |-> r.st, l |-> acc, thr |-> r.thr, v |-> r.v]
             ELSE EvalArgs(nodes, i + 1, cx, r.st, Append(acc, r.v))

RefRes(st, ref) == [st |-> st, ref |-> ref, thr |-> "", v |-> Undef]
RefFail(r) == [st |-> r.st, ref |-> [k |-> "unres", n |-> <<>>], thr |-> r.thr, v |-> r.v]

EvalRef(node, cx, st) ==
    CASE node.k = "id" -> RefRes(st, IdRef(st, cx.lex, node.n))
      [] node.k \in {"dot", "idx"} ->                   \* 11.2.1
            LET b == Eval(node.o, cx, st)
            IN  IF b.thr # "" THEN RefFail(b)
                ELSE LET p == IF node.k = "dot" THEN Ok(b.st, StrV(node.n)) ELSE Eval(node.p, cx, b.st)
                     IN  IF p.thr # "" THEN RefFail(p)
                         ELSE IF b.v.t \in {"undef", "null"} THEN RefFail(ThrowErrAt(p.st, cx, S_TypeError, Pos(node)))   \* CheckObjectCoercible
                         ELSE LET nm == ToStr(p.st, p.v)
                              IN  IF nm.thr # "" THEN RefFail(nm)
                                  \* evaluating a member expression moves the running frame to it: a getter or setter
                                  \* reached through the reference is called from here (8.12.3, 8.12.5).
                                  \* D19_getter_site_not_recorded: otto records no position for it
                                  ELSE RefRes(IF D("D19_getter_site_not_recorded") THEN nm.st ELSE Site(nm.st, cx, Pos(node)),
                                              [k |-> "prop", base |-> b.v, n |-> nm.v.s, envobj |-> FALSE, withThis |-> FALSE])
      [] OTHER -> RefFail(Und(st))

(* this value for a call through a reference (11.2.3 step 6) *)
ThisOfRef(ref) ==
    IF ref.k = "prop" THEN (IF ref.envobj THEN (IF ref.withThis THEN ref.base ELSE Undef) ELSE ref.base)
    ELSE Undef

RECURSIVE ObjLitProps(_, _, _, _, _)
ObjLitProps(prs, i, cx, st, o) ==                  \* 11.1.5
    IF i > Len(prs) THEN Ok(st, ObjV(o))
    ELSE LET r == Eval(prs[i].val, cx, st)
         IN  IF r.thr # "" THEN r
             ELSE LET desc == CASE prs[i].kind = "get" -> [OM!EmptyDesc EXCEPT !.hg = TRUE, !.g = r.v, !.he = TRUE, !.e = TRUE, !.hc = TRUE, !.c = TRUE]
                                [] prs[i].kind = "set" -> [OM!EmptyDesc EXCEPT !.hs = TRUE, !.s = r.v, !.he = TRUE, !.e = TRUE, !.hc = TRUE, !.c = TRUE]
                                [] OTHER -> OM!FullDataDesc(r.v, TRUE, TRUE, TRUE)
                      d == OM!DefineOwn(r.st.H, o, prs[i].key, desc)
                  IN  ObjLitProps(prs, i + 1, cx, SetH(r.st, d.H), o)

RECURSIVE ArrLitElems(_, _, _, _, _)
ArrLitElems(els, i, cx, st, o) ==
    IF i > Len(els) THEN Ok(st, ObjV(o))
    ELSE LET r == Eval(els[i], cx, st)
         IN  IF r.thr # "" THEN r
             ELSE LET d == OM!DefineOwn(r.st.H, o, DigitsNat(i - 1), OM!FullDataDesc(r.v, TRUE, TRUE, TRUE))
                  IN  ArrLitElems(els, i + 1, cx, SetH(r.st, d.H), o)

(* Every evaluation of an expression or statement is a POLLING POINT: the place where  *)
(* a pending interrupt is delivered (property C18).  st.poll counts them; when the     *)
(* count reaches st.abortAt the evaluation ends with the uncatchable completion         *)
(* "interrupt" (no catch block sees it, no finally block runs).                         *)
Eval(node, cx, st) ==
    LET st1 == [st EXCEPT !.poll = @ + 1]
    IN  IF Aborts(st1) THEN Intr(st1) ELSE EvalBody(node, cx, st1)

EvalBody(node, cx, st) ==
    CASE node.k = "num" -> Ok(st, NumV(node.v))
      [] node.k = "str" -> Ok(st, StrV(node.s))
      [] node.k = "bool" -> Ok(st, BoolV(node.b))
      [] node.k = "null" -> Ok(st, Null)
      [] node.k = "this" -> IF IsO(cx.this) THEN Ok(st, cx.this) ELSE Und(st)
      [] node.k \in {"id", "dot", "idx"} ->
            LET r == EvalRef(node, cx, st)
            IN  IF r.thr # "" THEN [st |-> r.st, v |-> r.v, thr |-> r.thr]
                ELSE GetValueAt(r.st, cx, r.ref, node)
      [] node.k = "fn" ->                                                    \* 13
            IF node.name = <<>> THEN (LET f == MakeFunction(st, node.params, node.body, cx.lex, <<>>, cx.file) IN Ok(f.st, f.v))
            ELSE LET e == NewDeclEnv(st, cx.lex)
                     f == MakeFunction(e.st, node.params, node.body, e.id, node.name, cx.file)
                 IN  Ok(CreateBinding(f.st, e.id, node.name, f.v, FALSE, FALSE), f.v)
      [] node.k = "obj" -> (LET o == NewPlain(st, ObjectProto) IN ObjLitProps(node.pr, 1, cx, o.st, o.id))
      [] node.k = "arr" ->
            LET a == Alloc(st, [OM!NewObj("Array", ArrayProto) EXCEPT !.cls = "Array"])
                H1 == DefData(a.st.H, a.id, S_length, IntV(0), TRUE, FALSE, FALSE)
            IN  ArrLitElems(node.el, 1, cx, SetH(a.st, H1), a.id)
      [] node.k = "un" ->
            IF node.op = "delete" THEN                                        \* 11.4.1
                (IF node.e.k \notin {"id", "dot", "idx"} THEN
                     (LET r == Eval(node.e, cx, st) IN IF r.thr # "" THEN r ELSE Ok(r.st, BoolV(TRUE)))
                 ELSE LET r == EvalRef(node.e, cx, st)
                      IN  IF r.thr # "" THEN [st |-> r.st, v |-> r.v, thr |-> r.thr]
                          ELSE IF r.ref.k = "unres" THEN Ok(r.st, BoolV(TRUE))
                          ELSE IF r.ref.k = "env" THEN
                               (IF r.st.E[r.ref.e].b[r.ref.n].del
                                THEN Ok([r.st EXCEPT !.E[r.ref.e].b = [x \in (DOMAIN @) \ {r.ref.n} |-> @[x]]], BoolV(TRUE))
                                ELSE Ok(r.st, BoolV(FALSE)))
                          ELSE IF ~IsO(r.ref.base) THEN Und(r.st)
                          ELSE LET d == ObjDelete(r.st, r.ref.base.id, r.ref.n) IN Ok(d.st, BoolV(d.ok)))
            ELSE IF node.op = "typeof" /\ node.e.k = "id" THEN                \* 11.4.3: unresolvable -> "undefined"
                (LET r == EvalRef(node.e, cx, st)
                 IN  IF r.ref.k = "unres" THEN Ok(r.st, StrV(S_undefined))
                     ELSE LET g == GetValue(r.st, r.ref) IN IF g.thr # "" THEN g ELSE UnaryOp(g.st, "typeof", g.v))
            ELSE (LET r == Eval(node.e, cx, st) IN IF r.thr # "" THEN r ELSE UnaryOp(r.st, node.op, r.v))
      [] node.k = "upd" ->                                                    \* 11.3, 11.4.4-5
            LET r == EvalRef(node.e, cx, st)
            IN  IF r.thr # "" THEN [st |-> r.st, v |-> r.v, thr |-> r.thr]
                ELSE LET g == GetValueAt(r.st, cx, r.ref, node.e)
                     IN  IF g.thr # "" THEN g
                         ELSE LET old == ToNum(g.st, g.v)
                              IN  IF old.thr # "" THEN old
                                  ELSE LET nv == NumV(IF node.op = "++" THEN NumAdd(old.v.n, I(1)) ELSE NumSub(old.v.n, I(1)))
                                           p == PutValue(old.st, r.ref, nv)
                                       IN  IF p.thr # "" THEN p ELSE Ok(p.st, IF node.pre THEN nv ELSE old.v)
      [] node.k = "bin" ->
            LET l == Eval(node.l, cx, st)
            IN  IF l.thr # "" THEN l
                ELSE LET r == Eval(node.r, cx, l.st)
                     \* the operator is applied at the binary expression: the TypeError of in / instanceof
                     \* (11.8.6 step 5, 11.8.7 step 5) and calls of valueOf / toString come from there.
                     \* D19_binary_operator_site_not_recorded: otto records no position for them
                     IN  IF r.thr # "" THEN r
                         ELSE BinaryOp(IF D("D19_binary_operator_site_not_recorded") THEN r.st ELSE Site(r.st, cx, Pos(node)), node.op, l.v, r.v)
      [] node.k = "logic" ->                                                  \* 11.11
            LET l == Eval(node.l, cx, st)
            IN  IF l.thr # "" THEN l
                ELSE IF (node.op = "&&") = Truthy(l.v) THEN Eval(node.r, cx, l.st) ELSE l
      [] node.k = "seq" ->
            (LET l == Eval(node.l, cx, st) IN IF l.thr # "" THEN l ELSE Eval(node.r, cx, l.st))
      [] node.k = "cond" ->
            LET t == Eval(node.t, cx, st)
            IN  IF t.thr # "" THEN t ELSE IF Truthy(t.v) THEN Eval(node.a, cx, t.st) ELSE Eval(node.b, cx, t.st)
      [] node.k = "asg" ->                                                    \* 11.13
            LET r == EvalRef(node.l, cx, st)
            IN  IF r.thr # "" THEN [st |-> r.st, v |-> r.v, thr |-> r.thr]
                \* PutValue happens at the assignment expression: a setter is called from there and
                \* the RangeError of an invalid array length (15.4.5.1) is raised there.
                \* D19_assignment_site_not_recorded: otto records no position for either
                ELSE IF node.op = "=" THEN
                    (LET v == Eval(node.r, cx, r.st)
                     IN  IF v.thr # "" THEN v
                         ELSE PutValue(IF D("D19_assignment_site_not_recorded") THEN v.st ELSE Site(v.st, cx, Pos(node)), r.ref, v.v))
                ELSE LET g == GetValueAt(r.st, cx, r.ref, node.l)                          \* 11.13.2: lval before the right operand
                     IN  IF g.thr # "" THEN g
                         ELSE LET v == Eval(node.r, cx, g.st)
                              IN  IF v.thr # "" THEN v
                                  ELSE LET b == BinaryOp(IF D("D19_assignment_site_not_recorded") THEN v.st ELSE Site(v.st, cx, Pos(node)), node.op, g.v, v.v)
                                       IN  IF b.thr # "" THEN b ELSE PutValue(b.st, r.ref, b.v)
      [] node.k = "call" ->                                                   \* 11.2.3
            LET isRef == node.f.k \in {"id", "dot", "idx"}
                fr == IF isRef THEN EvalRef(node.f, cx, st) ELSE [st |-> st, thr |-> ""]
            IN  IF fr.thr # "" THEN [st |-> fr.st, v |-> fr.v, thr |-> fr.thr]
                ELSE LET fv == IF isRef THEN GetValueAt(fr.st, cx, fr.ref, node.f) ELSE Eval(node.f, cx, st)
                     IN  IF fv.thr # "" THEN fv
                         ELSE LET a == EvalArgs(node.args, 1, cx, fv.st, <<>>)
                              IN  IF a.thr # "" THEN [st |-> a.st, v |-> a.v, thr |-> a.thr]
                                  \* the caller now stands at this call: its position is the call site of the
                                  \* callee's frame, and where "not a function" (11.2.3 step 4-5) is raised
                                  ELSE Call(Site(a.st, cx, CallSite(node)), fv.v, IF isRef THEN ThisOfRef(fr.ref) ELSE Undef, a.l)
      [] node.k = "new" ->                                                    \* 11.2.2
            LET fv == Eval(node.f, cx, st)
            IN  IF fv.thr # "" THEN fv
                ELSE LET a == EvalArgs(node.args, 1, cx, fv.st, <<>>)
                     IN  IF a.thr # "" THEN [st |-> a.st, v |-> a.v, thr |-> a.thr]
                         ELSE IF ~IsO(fv.v) THEN ThrowErr(Site(a.st, cx, CallSite(node)), S_TypeError)
                         ELSE Construct(Site(a.st, cx, CallSite(node)), fv.v, a.l)
      [] node.k = "eval" ->                                                   \* 15.1.2.1, 10.4.2
            \* direct: the caller's context; indirect: the global context
            \* stack depth: a direct eval runs in the caller's context but is one nesting level (eval code
            \* that evals itself must run into the limit); an indirect one is a native call that then
            \* enters the global context (two levels)
            \* call stack (C19): eval(...) is a call whose site is the eval expression.  A direct eval runs
            \* the eval code in the caller's frame, whose positions are then looked up in the eval source
            \* (D19_eval_leaves_frame_file: otto never switches the frame's file back);
            \* an indirect eval is a call of the built-in function, which runs the code as global code.
            \* "bad": the text does not parse: 15.1.2.1 step 3 SyntaxError; "lhs": it parses but assigns to
            \* a non-reference, an early error (clause 16) of class ReferenceError (8.7.2 step 1)
            \* (D19_eval_invalid_lhs_syntaxerror: otto reports a SyntaxError).
            \* An "eval" node with a field f: the callee is an expression, evaluated like the callee of a
            \* call (11.2.3); whether the call is a direct eval is decided at run time (15.1.2.1.1: the
            \* callee is a Reference to an environment record binding named "eval" whose value is the
            \* built-in eval function - a formal parameter, a local variable or a with-object property
            \* named eval qualify).  A callee that is not the built-in function is an ordinary call with
            \* the source text (node.src) as argument.  Without f: eval(...) / (0, eval)(...) as written.
            LET EvalCode(direct, st0) ==
                LET ecx == IF direct THEN [cx EXCEPT !.file = FileOf(node)]
                           ELSE [lex |-> GlobalEnv, var |-> GlobalEnv, this |-> ObjV(GlobalObj), file |-> FileOf(node)]
                    extra == IF direct THEN 1 ELSE 2
                    stS == Site(st0, cx, IF ~direct /\ D("D19_nonref_callee_site_dropped") THEN -1 ELSE Pos(node))
                    stE == IF direct
                           THEN (IF Bad(node) = "" THEN [stS EXCEPT !.fr[Len(stS.fr)].file = FileOf(node)] ELSE stS)
                           ELSE PushFrame(stS, NativeFrame)
                IN  IF extra > 0 /\ st0.limit > 0 /\ st0.depth + extra >= st0.limit THEN ThrowErr(st0, S_RangeError)
                    ELSE IF Bad(node) # "" THEN
                         (LET t == ThrowErr(stE, IF Bad(node) = "lhs" /\ ~D("D19_eval_invalid_lhs_syntaxerror") THEN S_ReferenceError ELSE S_SyntaxError)
                          IN  [t EXCEPT !.st.fr = stS.fr])
                    ELSE LET c == RunBody([(IF direct THEN stE ELSE PushFrame(stE, UserFrame(<<>>, FileOf(node)))) EXCEPT !.depth = @ + extra], node.prog, ecx, TRUE)
                             \* afterwards the caller stands at the eval call again (under the deviation its frame stays
                             \* where the eval code left it, file included)
                             stR == [c.st EXCEPT !.depth = st0.depth, !.fr = IF direct /\ D("D19_eval_leaves_frame_file") THEN @ ELSE stS.fr]
                         IN  CASE c.ty = "normal" -> Ok(stR, IF c.v = Empty THEN Undef ELSE c.v)
                               [] c.ty = "throw" -> Thr(stR, c.v)
                               [] c.ty = "interrupt" -> Intr(stR)
                               [] OTHER -> Und(stR)
            IN  IF "f" \notin DOMAIN node THEN EvalCode(node.direct, st)
                ELSE LET isRef == node.f.k \in {"id", "dot", "idx"}
                         fr == IF isRef THEN EvalRef(node.f, cx, st) ELSE [st |-> st, thr |-> ""]
                     IN  IF fr.thr # "" THEN [st |-> fr.st, v |-> fr.v, thr |-> fr.thr]
                         ELSE LET fv == IF isRef THEN GetValueAt(fr.st, cx, fr.ref, node.f) ELSE Eval(node.f, cx, st)
                              IN  IF fv.thr # "" THEN fv
                                  ELSE IF fv.v = ObjV(Id_Eval)
                                  THEN EvalCode(node.f.k = "id" /\ node.f.n = S_eval
                                                /\ (fr.ref.k = "env" \/ (fr.ref.k = "prop" /\ fr.ref.envobj)), fv.st)
                                  ELSE Call(Site(fv.st, cx, CallSite(node)), fv.v, IF isRef THEN ThisOfRef(fr.ref) ELSE Undef, <<StrV(node.src)>>)
      [] node.k = "fnctor" ->                                                 \* 15.3.2.1: new Function(p, body) / Function(p, body)
            \* only a body that does not parse is modelled (step 9-10: SyntaxError); called as a function
            \* the built-in is an active call, as a constructor (like the Error constructors) it adds none
            LET stS == Site(st, cx, Pos(node))
            IN  IF Bad(node) = "" THEN Und(st)
                ELSE LET t == ThrowErr(IF node.isNew THEN stS ELSE PushFrame(stS, NativeFrame),
                                       IF Bad(node) = "lhs" /\ ~D("D19_eval_invalid_lhs_syntaxerror") THEN S_ReferenceError ELSE S_SyntaxError)
                     IN  [t EXCEPT !.st.fr = stS.fr]
      [] OTHER -> Und(st)

-----------------------------------------------------------------------------
(* 12: statements.  labels = the label set of the statement being executed    *)
UpdV(c, V) == IF c.v = Empty THEN [c EXCEPT !.v = V] ELSE c

ExecList(stmts, i, cx, st, V) ==                 \* 12.1 StatementList
    IF i > Len(stmts) THEN Normal(st, V)
    ELSE LET c == Exec(stmts[i], cx, st, {})
         IN  IF c.ty = "throw" \/ Fatal(c.ty) THEN c
             ELSE IF c.ty # "normal" THEN UpdV(c, V)
             ELSE ExecList(stmts, i + 1, cx, c.st, IF c.v = Empty THEN V ELSE c.v)

LoopContinues(c, labels) ==     \* the completion lets the loop go on
    c.ty = "normal" \/ (c.ty = "continue" /\ (c.tg = <<>> \/ c.tg \in labels))
LoopBreaks(c, labels) == c.ty = "break" /\ (c.tg = <<>> \/ c.tg \in labels)

(* 12.6.2 while / 12.6.1 do-while (first = TRUE skips the first test) *)
LoopWhile(s, cx, st, labels, V, first) ==
    IF st.fuel <= 0 THEN Comp(st, "undecided", Undef, <<>>)
    ELSE LET t == IF first THEN Ok(st, BoolV(TRUE)) ELSE Eval(s.t, cx, st)
         IN  IF t.thr # "" THEN FromExpr(t)
             ELSE IF ~Truthy(t.v) THEN Normal(t.st, V)
             ELSE LET c == Exec(s.body, cx, [t.st EXCEPT !.fuel = @ - 1], {})
                      V2 == IF c.v # Empty THEN c.v ELSE V
                  IN  IF c.ty = "throw" \/ Fatal(c.ty) THEN c
                      ELSE IF LoopBreaks(c, labels) THEN Normal(c.st, V2)
                      ELSE IF ~LoopContinues(c, labels) THEN c      \* 12.6.x: "if stmt is an abrupt completion, return stmt"
                      ELSE LoopWhile(s, cx, c.st, labels, V2, FALSE)

(* 12.6.3 for *)
LoopFor(s, cx, st, labels, V, dummy) ==
    IF st.fuel <= 0 THEN Comp(st, "undecided", Undef, <<>>)
    ELSE LET t == IF s.test = <<>> THEN Ok(st, BoolV(TRUE)) ELSE Eval(s.test[1], cx, st)
         IN  IF t.thr # "" THEN FromExpr(t)
             ELSE IF ~Truthy(t.v) THEN Normal(t.st, V)
             ELSE LET c == Exec(s.body, cx, [t.st EXCEPT !.fuel = @ - 1], {})
                      V2 == IF c.v # Empty THEN c.v ELSE V
                  IN  IF c.ty = "throw" \/ Fatal(c.ty) THEN c
                      ELSE IF LoopBreaks(c, labels) THEN Normal(c.st, V2)
                      ELSE IF ~LoopContinues(c, labels) THEN c      \* 12.6.x: "if stmt is an abrupt completion, return stmt"
                      ELSE LET u == IF s.update = <<>> THEN Ok(c.st, Undef) ELSE Eval(s.update[1], cx, c.st)
                           IN  IF u.thr # "" THEN FromExpr(u) ELSE LoopFor(s, cx, u.st, labels, V2, dummy)

(* 12.6.4 for-in over a precomputed name list; names deleted before being     *)
(* visited are skipped                                                        *)
LoopForIn(s, cx, st, labels, V, o, names) ==
    IF names = <<>> THEN Normal(st, V)
    ELSE IF st.fuel <= 0 THEN Comp(st, "undecided", Undef, <<>>)
    ELSE LET p == Head(names)
         IN  IF ~OM!HasProperty(st.H, o, p) THEN LoopForIn(s, cx, st, labels, V, o, Tail(names))
             ELSE LET ref == IdRef(st, cx.lex, s.n)
                      pv == PutValue(st, ref, StrV(p))
                  IN  IF pv.thr # "" THEN FromExpr(pv)
                      ELSE LET c == Exec(s.body, cx, [pv.st EXCEPT !.fuel = @ - 1], {})
                               V2 == IF c.v # Empty THEN c.v ELSE V
                           IN  IF c.ty = "throw" \/ Fatal(c.ty) THEN c
                               ELSE IF LoopBreaks(c, labels) THEN Normal(c.st, V2)
                               ELSE IF ~LoopContinues(c, labels) THEN c      \* 12.6.x: "if stmt is an abrupt completion, return stmt"
                               ELSE LoopForIn(s, cx, c.st, labels, V2, o, Tail(names))

(* 12.11 switch: find the matching clause (or default), then fall through *)
CaseSearch(cases, i, cx, st, dv, dummy) ==       \* -> [st, idx (0 = none), thr, v]
    IF i > Len(cases) THEN [st |-> st, idx |-> 0, thr |-> "", v |-> Undef]
    ELSE IF cases[i].test = <<>> THEN CaseSearch(cases, i + 1, cx, st, dv, dummy)
    ELSE LET t == Eval(cases[i].test[1], cx, st)
         IN  IF t.thr # "" THEN [st |-> t.st, idx |-> 0, thr |-> t.thr, v |-> t.v]
             ELSE IF (IF IsO(dv) \/ IsO(t.v) THEN dv = t.v ELSE StrictEq(dv, t.v))
                  THEN [st |-> t.st, idx |-> i, thr |-> "", v |-> Undef]
                  ELSE CaseSearch(cases, i + 1, cx, t.st, dv, dummy)
CaseRun(cases, i, cx, st, V, dummy) ==
    IF i > Len(cases) THEN Normal(st, V)
    ELSE LET c == ExecList(cases[i].body, 1, cx, st, Empty)
             V2 == IF c.v # Empty THEN c.v ELSE V
         IN  IF c.ty = "throw" \/ Fatal(c.ty) THEN c
             ELSE IF c.ty # "normal" THEN [c EXCEPT !.v = V2]
             ELSE CaseRun(cases, i + 1, cx, c.st, V2, dummy)

DefaultIdx(cases) == IF \E i \in 1..Len(cases) : cases[i].test = <<>>
                     THEN CHOOSE i \in 1..Len(cases) : cases[i].test = <<>> ELSE 0

RECURSIVE VarDecls(_, _, _, _)
VarDecls(decls, i, cx, st) ==                    \* 12.2
    IF i > Len(decls) THEN Normal(st, Empty)
    ELSE IF decls[i].init = <<>> THEN VarDecls(decls, i + 1, cx, st)
    ELSE LET ref == IdRef(st, cx.lex, decls[i].n)
             v == Eval(decls[i].init[1], cx, st)
         IN  IF v.thr # "" THEN FromExpr(v)
             ELSE LET p == PutValue(v.st, ref, v.v)
                  IN  IF p.thr # "" THEN FromExpr(p) ELSE VarDecls(decls, i + 1, cx, p.st)

Exec(s, cx, st, labels) ==
    LET st1 == [st EXCEPT !.poll = @ + 1]
    IN  IF Aborts(st1) THEN Comp(st1, "interrupt", Undef, <<>>) ELSE ExecBody(s, cx, st1, labels)

ExecBody(s, cx, st, labels) ==
    CASE s.k = "empty" -> Normal(st, Empty)
      [] s.k = "fdecl" -> Normal(st, Empty)
      [] s.k = "expr" -> FromExpr(Eval(s.e, cx, st))
      [] s.k = "var" -> VarDecls(s.decls, 1, cx, st)
      [] s.k = "block" -> ExecList(s.body, 1, cx, st, Empty)
      [] s.k = "if" ->                                                       \* 12.5
            LET t == Eval(s.t, cx, st)
            IN  IF t.thr # "" THEN FromExpr(t)
                ELSE IF Truthy(t.v) THEN Exec(s.a, cx, t.st, {})
                ELSE IF s.b = <<>> THEN Normal(t.st, Empty) ELSE Exec(s.b[1], cx, t.st, {})
      [] s.k = "while" -> LoopWhile(s, cx, st, labels, Empty, FALSE)
      [] s.k = "dowhile" -> LoopWhile(s, cx, st, labels, Empty, TRUE)
      [] s.k = "for" ->
            LET i == IF s.init = <<>> THEN Normal(st, Empty)
                     ELSE IF s.init[1].k = "var" THEN Exec(s.init[1], cx, st, {})
                     ELSE FromExpr(Eval(s.init[1], cx, st))
            IN  IF i.ty # "normal" THEN i ELSE LoopFor(s, cx, i.st, labels, Empty, 0)
      [] s.k = "forin" ->
            LET e == Eval(s.obj, cx, st)
            IN  IF e.thr # "" THEN FromExpr(e)
                ELSE IF e.v.t \in {"undef", "null"} THEN Normal(e.st, Empty)
                ELSE IF ~IsO(e.v) THEN Comp(e.st, "undecided", Undef, <<>>)
                ELSE LoopForIn(s, cx, e.st, labels, Empty, e.v.id, OM!ForIn(e.st.H, e.v.id))
      [] s.k = "continue" -> Comp(st, "continue", Empty, s.l)
      [] s.k = "break" -> Comp(st, "break", Empty, s.l)
      [] s.k = "return" ->
            IF s.e = <<>> THEN Comp(st, "return", Undef, <<>>)
            ELSE (LET r == Eval(s.e[1], cx, st) IN IF r.thr # "" THEN FromExpr(r) ELSE Comp(r.st, "return", r.v, <<>>))
      [] s.k = "throw" ->
            (LET r == Eval(s.e, cx, st) IN IF r.thr # "" THEN FromExpr(r) ELSE Comp(r.st, "throw", r.v, <<>>))
      [] s.k = "with" ->                                                     \* 12.10
            LET o == Eval(s.o, cx, st)
            IN  IF o.thr # "" THEN FromExpr(o)
                ELSE IF o.v.t \in {"undef", "null"} THEN FromExpr(ThrowErr(o.st, S_TypeError))
                ELSE IF ~IsO(o.v) THEN Comp(o.st, "undecided", Undef, <<>>)
                ELSE LET e == NewObjEnv(o.st, o.v.id, cx.lex, TRUE)
                     IN  Exec(s.body, [cx EXCEPT !.lex = e.id], e.st, {})
      [] s.k = "label" ->                                                    \* 12.12
            LET c == Exec(s.body, cx, st, labels \cup {s.l})
            IN  IF c.ty = "break" /\ c.tg = s.l THEN Normal(c.st, c.v) ELSE c
      [] s.k = "switch" ->                                                   \* 12.11
            LET d == Eval(s.d, cx, st)
            IN  IF d.thr # "" THEN FromExpr(d)
                ELSE LET f == CaseSearch(s.cases, 1, cx, d.st, d.v, 0)
                     IN  IF f.thr # "" THEN FromExpr([st |-> f.st, v |-> f.v, thr |-> f.thr])
                         ELSE LET start == IF f.idx # 0 THEN f.idx ELSE DefaultIdx(s.cases)
                                  c == IF start = 0 THEN Normal(f.st, Empty) ELSE CaseRun(s.cases, start, cx, f.st, Empty, 0)
                              IN  IF c.ty = "break" /\ c.tg = <<>> THEN Normal(c.st, c.v) ELSE c
      [] s.k = "try" ->                                                      \* 12.14
            \* (Seen: an exception that passes through a try statement, caught or not, is no longer "raw")
            LET Seen(x) == IF x.ty = "throw" /\ IsO(x.v) /\ x.st.H[x.v.id].fn.k = "error" /\ "raw" \in DOMAIN x.st.H[x.v.id].fn
                           THEN [x EXCEPT !.st.H[x.v.id].fn.raw = FALSE] ELSE x
                b == Seen(ExecList(s.block, 1, cx, st, Empty))
                c == IF b.ty = "throw" /\ s.hasH
                     THEN LET e == NewDeclEnv(b.st, cx.lex)
                              st1 == CreateBinding(e.st, e.id, s.param, b.v, FALSE, TRUE)
                          IN  Seen(ExecList(s.handler, 1, [cx EXCEPT !.lex = e.id], st1, Empty))
                     ELSE b
            IN  IF ~s.hasF \/ Fatal(c.ty) THEN c
                ELSE LET f == ExecList(s.fin, 1, cx, c.st, Empty)
                     IN  IF f.ty = "normal" THEN [c EXCEPT !.st = f.st] ELSE f
      [] OTHER -> Comp(st, "undecided", Undef, <<>>)

-----------------------------------------------------------------------------
(* the initial heap (15.1 - 15.3, 15.11 as far as programs of the modelled    *)
(* fragment can observe it).  UM marks a property that every implementation  *)
(* has but this model does not: reading it makes the run "undecided".         *)
UM == [t |-> "unmodelled"]
Builtin(name) == [OM!NewObj("Function", FunctionProto) EXCEPT !.fn = [k |-> "builtin", name |-> name]]

RECURSIVE DefAll(_, _, _, _)
DefAll(H, o, names, v) == IF names = <<>> THEN H ELSE DefAll(DefData(H, o, Head(names), v, TRUE, FALSE, TRUE), o, Tail(names), v)

N_(s) == s
S_isPrototypeOf == <<105,115,80,114,111,116,111,116,121,112,101,79,102>>
S_propertyIsEnumerable == <<112,114,111,112,101,114,116,121,73,115,69,110,117,109,101,114,97,98,108,101>>
S_toLocaleString == <<116,111,76,111,99,97,108,101,83,116,114,105,110,103>>
S_pop == <<112,111,112>>
S_slice == <<115,108,105,99,101>>
S_concat == <<99,111,110,99,97,116>>
S_forEach == <<102,111,114,69,97,99,104>>
S_map == <<109,97,112>>
S_indexOf == <<105,110,100,101,120,79,102>>
S_sort == <<115,111,114,116>>
S_shift == <<115,104,105,102,116>>
S_parseInt == <<112,97,114,115,101,73,110,116>>
S_parseFloat == <<112,97,114,115,101,70,108,111,97,116>>
S_isNaN == <<105,115,78,97,78>>
S_isFinite == <<105,115,70,105,110,105,116,101>>
S_console == <<99,111,110,115,111,108,101>>

(* ids 1..6 are fixed above; the rest are allocated in this order *)
Id_call == 7
Id_apply == 8
Id_bind == 9
Id_OPtoString == 10
Id_OPvalueOf == 11
Id_OPhasOwn == 12
Id_APtoString == 13
Id_EPtoString == 14
Id_Object == 15
Id_Error == 16
NativeErrs == <<S_TypeError, S_ReferenceError, S_RangeError, S_SyntaxError, S_EvalError, S_URIError>>
Id_NCtor(i) == 15 + 2 * i        \* 17, 19, ...
Id_NProto(i) == 16 + 2 * i       \* 18, 20, ...

ErrCtorObj(protoId) ==
    [OM!NewObj("Function", FunctionProto) EXCEPT !.fn = [k |-> "builtin", name |-> "ErrorCtor", proto |-> protoId]]

BaseObjects ==
    <<OM!NewObj("Object", 0),                                                       \* 1 Object.prototype
      [OM!NewObj("Function", ObjectProto) EXCEPT !.fn = [k |-> "builtin", name |-> "noop"]],   \* 2 Function.prototype
      OM!NewObj("Object", ObjectProto),                                             \* 3 global object
      OM!NewObj("Array", ObjectProto),                                              \* 4 Array.prototype
      [OM!NewObj("Error", ObjectProto) EXCEPT !.fn = [k |-> "error"]],              \* 5 Error.prototype
      [OM!NewObj("Function", FunctionProto) EXCEPT !.fn = [k |-> "host"]],          \* 6 H
      Builtin("call"), Builtin("apply"), Builtin("bind"),
      Builtin("OP_toString"), Builtin("OP_valueOf"), Builtin("OP_hasOwnProperty"),
      Builtin("AP_toString"), Builtin("EP_toString"), Builtin("Object"), ErrCtorObj(ErrorProto)>>
    \o [j \in 1..(2 * Len(NativeErrs)) |->
          IF j % 2 = 1 THEN ErrCtorObj(Id_NProto((j + 1) \div 2))
          ELSE [OM!NewObj("Error", ErrorProto) EXCEPT !.fn = [k |-> "error"]]]
    \o [j \in 1..Len(ObjectFns) |-> Builtin(ObjectFns[j].f)]
    \o <<Builtin("eval")>>                                                         \* Id_Eval: the global eval function (15.1.2.1)
    \o <<[OM!NewObj("Function", FunctionProto) EXCEPT !.fn = [k |-> "hostcb"]]>>   \* Id_CB: the host function CB(f): an API call
                                                                                  \* (Value.Call) made by Go code while a script runs
    \o <<[OM!NewObj("Function", FunctionProto) EXCEPT !.fn = [k |-> "hostlimit"]]>>   \* Id_SL: the host function SL(n): Go code that
                                                                                  \* configures the stack depth limit while a script runs
    \o <<[OM!NewObj("Function", FunctionProto) EXCEPT !.fn = [k |-> "thrower"], !.ext = FALSE]>>   \* Id_Thrower: the unique
                                                                                  \* [[ThrowTypeError]] function object (13.2.3)

RECURSIVE WireNative(_, _)
WireNative(H, i) ==
    IF i > Len(NativeErrs) THEN H
    ELSE LET c == Id_NCtor(i)  p == Id_NProto(i)
             H1 == DefData(H, GlobalObj, NativeErrs[i], ObjV(c), TRUE, FALSE, TRUE)
             H2 == DefData(H1, c, S_prototype, ObjV(p), FALSE, FALSE, FALSE)
             H3 == DefData(H2, c, S_length, IntV(1), FALSE, FALSE, FALSE)
             H4 == DefData(H3, p, S_constructor, ObjV(c), TRUE, FALSE, TRUE)
             H5 == DefData(H4, p, S_name, StrV(NativeErrs[i]), TRUE, FALSE, TRUE)
             H6 == DefData(H5, p, S_message, StrV(<<>>), TRUE, FALSE, TRUE)
         IN  WireNative(H6, i + 1)

Heap0 ==
    LET W(H, o, n, v) == DefData(H, o, n, v, TRUE, FALSE, TRUE)
        h1  == W(BaseObjects, ObjectProto, S_constructor, ObjV(Id_Object))
        h2  == W(h1, ObjectProto, S_toString, ObjV(Id_OPtoString))
        h3  == W(h2, ObjectProto, S_valueOf, ObjV(Id_OPvalueOf))
        h4  == W(h3, ObjectProto, S_hasOwnProperty, ObjV(Id_OPhasOwn))
        h5  == DefAll(h4, ObjectProto, <<S_isPrototypeOf, S_propertyIsEnumerable, S_toLocaleString>>, UM)
        h6  == W(W(W(h5, FunctionProto, S_call, ObjV(Id_call)), FunctionProto, S_apply, ObjV(Id_apply)), FunctionProto, S_bind, ObjV(Id_bind))
        h7  == DefAll(h6, FunctionProto, <<S_toString, S_constructor>>, UM)
        h8  == DefData(h7, FunctionProto, S_length, IntV(0), FALSE, FALSE, FALSE)
        h9  == DefData(h8, ArrayProto, S_length, IntV(0), TRUE, FALSE, FALSE)
        h10 == W(h9, ArrayProto, S_toString, ObjV(Id_APtoString))
        h11 == DefAll(h10, ArrayProto, <<S_constructor, S_push, S_pop, S_join, S_slice, S_concat, S_forEach, S_map,
                                          S_indexOf, S_sort, S_shift, S_toLocaleString>>, UM)
        h12 == W(W(W(W(h11, ErrorProto, S_name, StrV(S_Error)), ErrorProto, S_message, StrV(<<>>)),
                   ErrorProto, S_toString, ObjV(Id_EPtoString)), ErrorProto, S_constructor, ObjV(Id_Error))
        h13 == DefData(DefData(W(h12, GlobalObj, S_Error, ObjV(Id_Error)), Id_Error, S_prototype, ObjV(ErrorProto), FALSE, FALSE, FALSE),
                       Id_Error, S_length, IntV(1), FALSE, FALSE, FALSE)
        h14 == WireNative(h13, 1)
        h15 == DefData(DefData(W(h14, GlobalObj, S_Object, ObjV(Id_Object)), Id_Object, S_prototype, ObjV(ObjectProto), FALSE, FALSE, FALSE),
                       Id_Object, S_length, IntV(1), FALSE, FALSE, FALSE)
        h16 == DefData(DefData(DefData(h15, GlobalObj, S_undefined, Undef, FALSE, FALSE, FALSE),
                               GlobalObj, S_NaN, NumV(NaN), FALSE, FALSE, FALSE),
                       GlobalObj, S_Infinity, NumV(PInf), FALSE, FALSE, FALSE)
        h17 == W(h16, GlobalObj, S_H, ObjV(HostH))
        h17e == W(DefData(W(h17, GlobalObj, S_eval, ObjV(Id_Eval)), Id_Eval, S_length, IntV(1), FALSE, FALSE, FALSE), GlobalObj, S_CB, ObjV(Id_CB))
        h17f == W(h17e, GlobalObj, S_SL, ObjV(Id_SL))
        h18 == DefAll(h17f, GlobalObj, <<S_Function, S_Array, S_String, S_Number, S_Boolean, S_Date, S_RegExp,
                                         S_Math, S_JSON, S_parseInt, S_parseFloat, S_isNaN, S_isFinite, S_console>>, UM)
        RECURSIVE WireObjectFns(_, _)
        WireObjectFns(H, j) ==
            IF j > Len(ObjectFns) THEN H
            ELSE WireObjectFns(DefData(W(H, Id_Object, ObjectFns[j].n, ObjV(Id_ObjectFn(j))), Id_ObjectFn(j), S_length, IntV(ObjectFns[j].len), FALSE, FALSE, FALSE), j + 1)
        h19 == DefAll(WireObjectFns(h18, 1), Id_Object, <<S_defineProperties>>, UM)
    IN  h19

State0(fuel) ==
    [H |-> Heap0, E |-> <<[k |-> "obj", o |-> GlobalObj, withThis |-> FALSE, outer |-> 0]>>, log |-> <<>>, fuel |-> fuel,
     poll |-> 0, abortAt |-> 0, abortLog |-> 0, aborted |-> FALSE, depth |-> 0, limit |-> 0,
     fr |-> <<UserFrame(<<>>, 1)>>, tlimit |-> 0, numproto |-> 0, hpanic |-> 0]

GlobalCx == [lex |-> GlobalEnv, var |-> GlobalEnv, this |-> ObjV(GlobalObj), file |-> 1]

(* the observable outcome of running a program (property C01): host calls,   *)
(* completion value, uncaught exception class                                *)
ErrName(st, v) ==
    IF IsO(v) /\ st.H[v.id].cls = "Error"
    THEN (LET n == ObjGet(st, v.id, S_name) IN IF n.thr = "" /\ n.v.t = "str" THEN n.v.s ELSE <<>>)
    ELSE <<>>

Outcome(c) ==
    CASE c.ty = "undecided" -> [und |-> TRUE]
      [] c.ty = "interrupt" -> [und |-> FALSE, log |-> c.st.log, thr |-> <<105>>, v |-> Undef]      \* "i": unwound by an interrupt
      [] c.ty = "throw" ->
            (LET nm == ErrName(c.st, c.v)
             IN  IF nm # <<>> THEN [und |-> FALSE, log |-> c.st.log, thr |-> nm, v |-> Undef]
                 ELSE IF IsO(c.v) THEN [und |-> TRUE]          \* an uncaught non-error object: its text is not modelled
                 ELSE [und |-> FALSE, log |-> c.st.log, thr |-> <<118>>, v |-> StrV(OPS!ToStringPrim(c.v))])   \* "v" + String(value)
      [] c.ty = "normal" -> [und |-> FALSE, log |-> c.st.log, thr |-> <<>>, v |-> Proj(c.st, IF c.v = Empty THEN Undef ELSE c.v)]
      [] OTHER -> [und |-> TRUE]      \* break/continue/return escaping a program: not generated

RunProgram(body, fuel, isEval) == Outcome(RunBody(State0(fuel), body, GlobalCx, isEval))

(* one API-level run on an existing runtime state (OttoAPI.tla): [st, out] *)
(* alog > 0: an interrupt is sent during the alog-th call of H and delivered at the next  *)
(* polling point.  The counters of a run (poll, log) are not part of the runtime at rest.  *)
RunOnX(st, body, fuel, isEval, hpanic, alog) ==
    LET c == RunBody([st EXCEPT !.log = <<>>, !.fuel = fuel, !.hpanic = hpanic, !.abortAt = 0, !.abortLog = alog, !.poll = 0], body, GlobalCx, isEval)
    IN  [st |-> [c.st EXCEPT !.hpanic = 0, !.abortLog = 0, !.poll = 0, !.log = <<>>, !.fuel = fuel], out |-> Outcome(c)]
RunOn(st, body, fuel, isEval, hpanic) == RunOnX(st, body, fuel, isEval, hpanic, 0)

(* several programs one after the other on the same runtime (C17, C20): the outcomes *)
RECURSIVE RunSeqFrom(_, _, _, _)
RunSeqFrom(st, progs, i, fuel) ==
    IF i > Len(progs) THEN <<>>
    ELSE LET c == RunBody([st EXCEPT !.log = <<>>, !.fuel = fuel], progs[i], GlobalCx, FALSE)
         IN  <<Outcome(c)>> \o RunSeqFrom(c.st, progs, i + 1, fuel)
RunSeq(progs, fuel) == RunSeqFrom(State0(fuel), progs, 1, fuel)

(* C18: run P with an interrupt delivered at polling point k (0 = never), then run the   *)
(* follow-up program Q on the state the first run left behind.                            *)
RunThen(body, k, follow, fuel, limit) ==
    LET c1 == RunBody([State0(fuel) EXCEPT !.abortAt = k, !.limit = limit], body, GlobalCx, FALSE)
        st1 == [c1.st EXCEPT !.abortAt = 0, !.log = <<>>, !.fuel = fuel]
        c2 == RunBody(st1, follow, GlobalCx, FALSE)
    IN  [first |-> Outcome(c1), polls |-> c1.st.poll, second |-> Outcome(c2)]
=============================================================================
