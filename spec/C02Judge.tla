------------------------------ MODULE C02Judge ------------------------------
(* Judge direction of property C02: the harness mutates real programs        *)
(* (truncation, byte flips, deletions, duplications, junk insertion), submits *)
(* them to the program APIs and records one event per call in trace.ndjson:  *)
(*   [i, api, kind, class, post, after]                                      *)
(* The specification decides, per event, whether the reply is a member of    *)
(* the expectation Totality!TextExpect(api); rejected events are printed.     *)
EXTENDS Naturals, Sequences, TLC, Json
CONSTANTS OpenDev, BlockSize
VARIABLES blk, done

T == INSTANCE Totality WITH Dev <- OpenDev
Trace == ndJsonDeserialize("trace.ndjson")
NB == (Len(Trace) + BlockSize - 1) \div BlockSize

Init == blk \in 1..NB /\ done = FALSE
Next == done = FALSE /\ done' = TRUE /\ UNCHANGED blk

Bad(ev) == ~T!Admits(T!TextExpect(ev.api), [kind |-> ev.kind, class |-> ev.class, post |-> ev.post, after |-> ev.after])
Judge ==
    done = FALSE \/
    LET lo == (blk - 1) * BlockSize + 1
        hi == IF blk * BlockSize < Len(Trace) THEN blk * BlockSize ELSE Len(Trace)
        bad == {i \in lo..hi : Bad(Trace[i])}
    IN  bad = {} \/ PrintT("VJSON " \o ToJson([bad |-> {Trace[i].i : i \in bad}]))
=============================================================================
