#!/usr/bin/env python3
"""Generates spec/LibShapeTab.tla: the ES5.1 clause 15 library table as TLA+ data.

The table below is TRANSCRIBED FROM ECMA-262 5.1 (clauses 10.6, 13.2, 15.1 - 15.12 and,
flagged as such, Annex B.2); nothing in it is read from the implementation.  The rules of
clause 15 that apply "unless otherwise specified" (attributes, function length attributes,
[[Class]], [[Prototype]] of functions and prototypes, [[Extensible]]) are NOT expanded here:
they are operators of spec/LibShape.tla which turn this table into expected observations.

  obj(id, ...)      a built-in (or instance) object: how to reach it, [[Class]], [[Prototype]]
  fn(owner, ...)    a function-valued property (creates the function object "owner.name" too)
  const/val/ref     constant ({~w,~e,~c}), ordinary value property, property whose value is a listed object
  absent(...)       ES5 says explicitly that the object has no such own property

Named deviations of the implementation (open findings) are written dev("D14_x", otto, es5)
and become  IF D("D14_x") THEN otto ELSE es5  in the generated module.

Usage: python3 gen_libshape.py > LibShapeTab.tla
"""
import sys, datetime

OBJS = []
ROWS = []
FORIN = []
PROBES = []
SEEN_OBJ = {}
SEEN_ROW = {}


class Raw:
    """verbatim TLA+ expression"""
    def __init__(self, s):
        self.s = s


def dev(name, otto, es5):
    return Raw('IF D("%s") THEN %s ELSE %s' % (name, tla(otto), tla(es5)))


def tstr(s):
    assert '"' not in s and '\\' not in s and '\n' not in s, s
    return '"' + s + '"'


def units(s):
    return '<<' + ', '.join(str(ord(ch)) for ch in s) + '>>'


class V:
    """a JavaScript primitive value as a Val.tla expression"""
    def __init__(self, expr):
        self.expr = expr


UNDEF = V('Undef')
NULL = V('Null')


def val(x):
    if isinstance(x, V):
        return x
    if x is None:
        return UNDEF
    if isinstance(x, bool):
        return V('BoolV(%s)' % ('TRUE' if x else 'FALSE'))
    if isinstance(x, int):
        assert abs(x) < 2 ** 30
        return V('IntV(%d)' % x)
    if isinstance(x, str):
        return V('StrV(%s)' % units(x))
    raise ValueError(x)


def tla(x):
    if isinstance(x, Raw):
        return x.s
    if isinstance(x, V):
        return x.expr
    if isinstance(x, bool):
        return 'TRUE' if x else 'FALSE'
    if isinstance(x, int):
        return str(x)
    if isinstance(x, str):
        return tstr(x)
    raise ValueError(x)


def fid(owner, name):
    return name if owner == 'global' else owner + '.' + name


# 15.2.3.3: Object.getOwnPropertyDescriptor answers for every own property.  otto: it panics (a Go panic that
# leaves Run) on the accessor properties the implementation adds to function objects created at run time
# ("caller") and to Error instances ("stack"): their mode says "data descriptor"  (mk marks those objects)
GOPD = dev('D14_gopd_panics_on_internal_accessor', 'go-panic', 'ok')


def obj(id, cls, proto, js='', via=None, callable=False, ctor=False, ext=True, call='', exp=None, clause='',
        grp='lib', exact=False, mk=''):
    """cls/proto '?' = implementation-dependent (not compared).  exact: the own property list is complete
    (instances whose properties ES5 enumerates completely are still allowed non-enumerable extras; exact is
    only used by the table invariants)."""
    assert id not in SEEN_OBJ, id
    SEEN_OBJ[id] = 1
    OBJS.append(dict(id=id, js=js, vo=via[0] if via else '', vn=via[1] if via else '', cls=cls, proto=proto,
                     callable=callable, ctor=ctor, ext=ext, call=call,
                     callexp=exp if isinstance(exp, Raw) else (val(exp) if call else UNDEF), clause=clause, grp=grp, mk=mk,
                     reflect=GOPD if mk else 'ok'))


def row(owner, name, kind, attrs='', target='', v=UNDEF, valmode='exact', clause='', length=-1):
    key = (owner, name)
    assert key not in SEEN_ROW, key
    SEEN_ROW[key] = 1
    ROWS.append(dict(owner=owner, name=name, kind=kind, attrs=attrs, target=target, val=v, valmode=valmode,
                     clause=clause))


def fn(owner, name, length, call, exp, clause, attrs='', grp='lib', same=None):
    """function-valued property.  attrs '' = the default of clause 15.  same: id of the function object
    that ES5 says is THE SAME object (B.2.6)."""
    i = fid(owner, name)
    if same is None:
        obj(i, '', '', via=(owner, name), callable=True, call=call, exp=exp,
            clause=clause, grp=grp)
        # 15: "the length property of a built-in Function object ... has the attributes {~w,~e,~c}"
        row(i, 'length', 'length', v=length if isinstance(length, Raw) else val(length), clause='15 / ' + clause)
        # 15: "None of the built-in functions described in this clause shall have a prototype property
        #      unless otherwise specified"
        row(i, 'prototype', 'absent', clause='15 / ' + clause)
    row(owner, name, 'function', attrs=attrs, target=same or i, clause=clause)


def const(owner, name, v, clause):
    row(owner, name, 'constant', v=val(v), clause=clause)


def value(owner, name, v, clause, attrs='', valmode='exact'):
    row(owner, name, 'value', attrs=attrs, v=val(v), valmode=valmode, clause=clause)


def ref(owner, name, target, clause, attrs=''):
    row(owner, name, 'object', attrs=attrs, target=target, clause=clause)


def absent(owner, name, clause):
    row(owner, name, 'absent', clause=clause)


def element(owner, name, v, attrs, clause):
    row(owner, name, 'element', attrs=attrs, v=val(v), clause=clause)


def probe(id, js, exp, clause):
    """a behaviour of a listed object (F = the object) that distinguishes WHAT KIND of object it is; the text
    restores whatever it changes"""
    PROBES.append(dict(id=id, call=js, callexp=exp if isinstance(exp, Raw) else val(exp), clause=clause))


def forin(id, js, note):
    FORIN.append(dict(id=id, js=js, note=note))


# ---------------------------------------------------------------------------------------------
# 15.1 The Global Object
# ---------------------------------------------------------------------------------------------
# "The values of the [[Prototype]] and [[Class]] internal properties of the global object are
#  implementation-dependent."
obj('global', '?', '?', js='GLOBAL', clause='15.1')
const('global', 'NaN', V('NumV(NaN)'), '15.1.1.1')
const('global', 'Infinity', V('NumV(PInf)'), '15.1.1.2')
const('global', 'undefined', UNDEF, '15.1.1.3')
fn('global', 'eval', 1, "F('1+2')", 3, '15.1.2.1')
fn('global', 'parseInt', 2, "F('12px', 8)", 10, '15.1.2.2')
fn('global', 'parseFloat', 1, "F('1.5e1x')", 15, '15.1.2.3')
fn('global', 'isNaN', 1, "F('x')", True, '15.1.2.4')
fn('global', 'isFinite', 1, "F('5')", True, '15.1.2.5')
fn('global', 'decodeURI', 1, "F('%C3%A9%2F')", '\u00e9%2F', '15.1.3.1')
fn('global', 'decodeURIComponent', 1, "F('%C3%A9%2F')", '\u00e9/', '15.1.3.2')
fn('global', 'encodeURI', 1, "F('a /' + String.fromCharCode(233))", 'a%20/%C3%A9', '15.1.3.3')
fn('global', 'encodeURIComponent', 1, "F('a /' + String.fromCharCode(233))", 'a%20%2F%C3%A9', '15.1.3.4')
for c in ['Object', 'Function', 'Array', 'String', 'Boolean', 'Number', 'Date', 'RegExp', 'Error', 'EvalError',
          'RangeError', 'ReferenceError', 'SyntaxError', 'TypeError', 'URIError']:
    ref('global', c, c, '15.1.4')
ref('global', 'Math', 'Math', '15.1.5.1')
ref('global', 'JSON', 'JSON', '15.1.5.2')
# Annex B.2.1, B.2.2 (informative; compared because the implementation provides them)
fn('global', 'escape', 1, "F('a /' + String.fromCharCode(233))", 'a%20/%E9', 'B.2.1', grp='annexB')
fn('global', 'unescape', 1, "F('%u0041%41%2F')", 'AA/', 'B.2.2', grp='annexB')


def ctor(id, length, protoCls, protoProto, call, exp, clause, protoCall='', protoExp=None, protoCallable=False):
    """a constructor and its prototype object: 15.x.3 'length', 'prototype' {~w,~e,~c}; 15.x.4 'constructor'"""
    obj(id, '', '', js=id, callable=True, ctor=True, call=call, exp=exp, clause=clause)
    row(id, 'length', 'length', v=val(length), clause=clause)
    obj(id + '.prototype', protoCls, protoProto, js=id + '.prototype', callable=protoCallable, call=protoCall,
        exp=protoExp, clause=clause)
    row(id, 'prototype', 'constant-object', target=id + '.prototype', clause=clause)
    ref(id + '.prototype', 'constructor', id, clause)


# ---------------------------------------------------------------------------------------------
# 15.2 Object
# ---------------------------------------------------------------------------------------------
ctor('Object', 1, 'Object', 'null',
     "var o = {}; (F(o) === o) + '|' + typeof F(1) + '|' + (new F(o) === o) + '|' + CLS(new F())",
     'true|object|true|Object', '15.2.3 / 15.2.4')
fn('Object', 'getPrototypeOf', 1, "var o = Object.create(null); (F(o) === null) + '|' + (F([]) === Array.prototype)",
   'true|true', '15.2.3.2')
fn('Object', 'getOwnPropertyDescriptor', 2, "var d = F({x:7}, 'x'); d.value + '|' + d.writable", '7|true', '15.2.3.3')
fn('Object', 'getOwnPropertyNames', 1, "F([5]).length", 2, '15.2.3.4')
fn('Object', 'create', 2,
   "var p = {x:1}; var o = F(p, {y:{value:2}}); (Object.getPrototypeOf(o) === p) + '|' + o.y + '|' + o.hasOwnProperty('x')",
   'true|2|false', '15.2.3.5')
fn('Object', 'defineProperty', 3,
   "var o = {}; (F(o, 'x', {value:3}) === o) + '|' + o.x + '|' + Object.keys(o).length", 'true|3|0', '15.2.3.6')
fn('Object', 'defineProperties', 2, "var o = {}; (F(o, {x:{value:3}}) === o) + '|' + o.x", 'true|3', '15.2.3.7')
SEALP = "var o = {x:1}; (F(o) === o) + '|' + Object.isSealed(o) + '|' + Object.isFrozen(o) + '|' + Object.isExtensible(o)"
fn('Object', 'seal', 1, SEALP, 'true|true|false|false', '15.2.3.8')
fn('Object', 'freeze', 1, SEALP, 'true|true|true|false', '15.2.3.9')
fn('Object', 'preventExtensions', 1, SEALP, 'true|false|false|false', '15.2.3.10')
ISP = "var o = Object.freeze({x:1}); var p = Object.seal({x:1}); F(o) + '|' + F(p) + '|' + F({})"
fn('Object', 'isSealed', 1, ISP, 'true|true|false', '15.2.3.11')
fn('Object', 'isFrozen', 1, ISP, 'true|false|false', '15.2.3.12')
fn('Object', 'isExtensible', 1, ISP, 'false|false|true', '15.2.3.13')
fn('Object', 'keys', 1,
   "var o = Object.create({a:1}); o.b = 2; Object.defineProperty(o, 'c', {value:3}); F(o).join()", 'b', '15.2.3.14')
fn('Object.prototype', 'toString', 0, "F.call([]) + '|' + F.call(null)", '[object Array]|[object Null]', '15.2.4.2')
fn('Object.prototype', 'toLocaleString', 0, "F.call({toString:function(){return 'ts'}})", 'ts', '15.2.4.3')
fn('Object.prototype', 'valueOf', 0, "var o = {}; (F.call(o) === o) + '|' + typeof F.call(1)", 'true|object', '15.2.4.4')
fn('Object.prototype', 'hasOwnProperty', 1, "F.call([], 'length') + '|' + F.call([], 'join')", 'true|false', '15.2.4.5')
fn('Object.prototype', 'isPrototypeOf', 1, "F.call(Array.prototype, []) + '|' + F.call({}, [])", 'true|false', '15.2.4.6')
fn('Object.prototype', 'propertyIsEnumerable', 1, "F.call([5], '0') + '|' + F.call([5], 'length')", 'true|false', '15.2.4.7')

# ---------------------------------------------------------------------------------------------
# 15.3 Function
# ---------------------------------------------------------------------------------------------
# 15.3.4: the Function prototype object is itself a Function object that, when invoked, accepts any
# arguments and returns undefined; its [[Prototype]] is the Object prototype object; its length is 0
ctor('Function', 1, 'Function', 'Object.prototype', "F('a', 'b', 'return a+b')(2, 3) + '|' + CLS(new F())",
     '5|Function', '15.3.3 / 15.3.4', protoCall="F(1, 2) === undefined", protoExp=True, protoCallable=True)
row('Function.prototype', 'length', 'length', v=val(0), clause='15.3.4')
absent('Function.prototype', 'valueOf', '15.3.4 (does not have a valueOf property of its own)')
fn('Function.prototype', 'toString', 0, "typeof F.call(function(){}) + '|' + T(function(){ F.call({}) })",
   'string|TypeError', '15.3.4.2')
FNP = "function(a, b){ return this.k + a + b }"
fn('Function.prototype', 'apply', 2, "F.call(%s, {k:1}, [2, 3])" % FNP, 6, '15.3.4.3')
fn('Function.prototype', 'call', 1, "F.call(%s, {k:1}, 2, 3)" % FNP, 6, '15.3.4.4')
fn('Function.prototype', 'bind', 1, "var b = F.call(%s, {k:1}, 2); typeof b + '|' + b(3)" % FNP, 'function|6', '15.3.4.5')

# ---------------------------------------------------------------------------------------------
# 15.4 Array
# ---------------------------------------------------------------------------------------------
# 15.4.4: the Array prototype object is itself an array; [[Class]] "Array"; length +0 (15.4.5.2 attributes)
ctor('Array', 1, 'Array', 'Object.prototype',
     "var a = new F(3); a.length + '|' + F(1, 2).join('-') + '|' + CLS(a) + '|' + new F(7, 8).length", '3|1-2|Array|2',
     '15.4.3 / 15.4.4', protoCall="'[' + F.join() + ']' + F.length", protoExp='[]0')
value('Array.prototype', 'length', 0, '15.4.4 / 15.4.5.2', attrs='TFF')
fn('Array', 'isArray', 1, "F([]) + '|' + F({length:0})", 'true|false', '15.4.3.2')
AP = 'Array.prototype'
# 15.4.4.2 step 4: join is called with an EMPTY argument list
fn(AP, 'toString', 0, "F.call([1, [2, 3]], '-') + '|' + F.call({join:function(){ return 'J' + arguments.length }}, 1, 2)",
   dev('D14_array_toString_forwards_arguments', val('1-2,3|J2'), val('1,2,3|J0')), '15.4.4.2')
fn(AP, 'toLocaleString', 0,
   "F.call([{toLocaleString:function(){ return 'L' }, toString:function(){ return 'T' }}])", 'L', '15.4.4.3')
fn(AP, 'concat', 1, "var a = [1]; var r = F.call(a, [2], 3); r.join() + '|' + a.length", '1,2,3|1', '15.4.4.4')
fn(AP, 'join', 1, "F.call([1, 2], '-')", '1-2', '15.4.4.5')
fn(AP, 'pop', 0, "var a = [1, 2, 3]; F.call(a) + '|' + a.join()", '3|1,2', '15.4.4.6')
fn(AP, 'push', 1, "var a = [1]; F.call(a, 5, 6) + '|' + a.join()", '3|1,5,6', '15.4.4.7')
fn(AP, 'reverse', 0, "var a = [2, 1, 3]; (F.call(a) === a) + '|' + a.join()", 'true|3,1,2', '15.4.4.8')
fn(AP, 'shift', 0, "var a = [1, 2, 3]; F.call(a) + '|' + a.join()", '1|2,3', '15.4.4.9')
fn(AP, 'slice', 2, "var a = [1, 2, 3, 4]; F.call(a, 1, 3).join() + '|' + a.length", '2,3|4', '15.4.4.10')
fn(AP, 'sort', 1, "var a = [2, 1, 3]; (F.call(a) === a) + '|' + a.join()", 'true|1,2,3', '15.4.4.11')
fn(AP, 'splice', 2, "var a = [1, 2, 3, 4]; F.call(a, 1, 2, 9).join() + '|' + a.join()", '2,3|1,9,4', '15.4.4.12')
fn(AP, 'unshift', 1, "var a = [1]; F.call(a, 5, 6) + '|' + a.join()", '3|5,6,1', '15.4.4.13')
fn(AP, 'indexOf', 1, "F.call([5, 6, 7, 6], 6)", 1, '15.4.4.14')
fn(AP, 'lastIndexOf', 1, "F.call([5, 6, 7, 6], 6)", 3, '15.4.4.15')
ITP = "var n = 0; var r = F.call([1, 1, 3], function(x, i, a){ n++; return a.length === 3 && x < 2 }); String(r) + '|' + n"
fn(AP, 'every', 1, ITP, 'false|3', '15.4.4.16')
fn(AP, 'some', 1, ITP, 'true|1', '15.4.4.17')
fn(AP, 'forEach', 1, ITP, 'undefined|3', '15.4.4.18')
fn(AP, 'map', 1, ITP, 'true,true,false|3', '15.4.4.19')
fn(AP, 'filter', 1, ITP, '1,1|3', '15.4.4.20')
RDP = "F.call([1, 2, 3], function(a, x){ return a + '-' + x })"
fn(AP, 'reduce', 1, RDP, '1-2-3', '15.4.4.21')
fn(AP, 'reduceRight', 1, RDP, '3-2-1', '15.4.4.22')

# ---------------------------------------------------------------------------------------------
# 15.5 String
# ---------------------------------------------------------------------------------------------
# 15.5.4: the String prototype object is itself a String object ([[Class]] "String") whose value is ""
ctor('String', 1, 'String', 'Object.prototype', "F(12) + '|' + typeof F(1) + '|' + typeof new F(1) + '|' + F()",
     '12|string|object|', '15.5.3 / 15.5.4', protoCall="'[' + F.valueOf() + ']'", protoExp='[]')
const('String.prototype', 'length', 0, '15.5.4 / 15.5.5.1')
fn('String', 'fromCharCode', 1, "F(97, 98)", 'ab', '15.5.3.2')
SP = 'String.prototype'
STP = "F.call(new String('ab')) + '|' + typeof F.call('ab') + '|' + T(function(){ F.call({}) })"
fn(SP, 'toString', 0, STP, 'ab|string|TypeError', '15.5.4.2')
fn(SP, 'valueOf', 0, STP, 'ab|string|TypeError', '15.5.4.3')
fn(SP, 'charAt', 1, "F.call('abc', 1)", 'b', '15.5.4.4')
fn(SP, 'charCodeAt', 1, "F.call('abc', 1)", 98, '15.5.4.5')
fn(SP, 'concat', 1, "F.call('a', 'b', 1)", 'ab1', '15.5.4.6')
IXP = "F.call('ab.ab.ab.', '.', 3)"
fn(SP, 'indexOf', 1, IXP, 5, '15.5.4.7')
fn(SP, 'lastIndexOf', 1, IXP, 2, '15.5.4.8')
fn(SP, 'localeCompare', 1, "F.call('a', 'a') + '|' + (F.call('a', 'b') < 0) + '|' + (F.call('b', 'a') > 0)",
   '0|true|true', '15.5.4.9')
fn(SP, 'match', 1, "F.call('a1b22', /[0-9]+/g).join()", '1,22', '15.5.4.10')
fn(SP, 'replace', 2, "F.call('aXbX', 'X', '$&$&')", 'aXXbX', '15.5.4.11')
fn(SP, 'search', 1, "F.call('ab12', /[0-9]/)", 2, '15.5.4.12')
fn(SP, 'slice', 2, "F.call('abcdef', -3, -1)", 'de', '15.5.4.13')
fn(SP, 'split', 2, "F.call('a,b,c', ',', 2).join('|')", 'a|b', '15.5.4.14')
fn(SP, 'substring', 2, "F.call('abcdef', 4, 1)", 'bcd', '15.5.4.15')
fn(SP, 'toLowerCase', 0, "F.call('aB')", 'ab', '15.5.4.16')
fn(SP, 'toLocaleLowerCase', 0, "F.call('aB')", 'ab', '15.5.4.17')
fn(SP, 'toUpperCase', 0, "F.call('aB')", 'AB', '15.5.4.18')
fn(SP, 'toLocaleUpperCase', 0, "F.call('aB')", 'AB', '15.5.4.19')
fn(SP, 'trim', 0, "'[' + F.call('  a b ') + ']'", '[a b]', '15.5.4.20')
fn(SP, 'substr', 2, "F.call('abcdef', 3, 2)", 'de', 'B.2.3', grp='annexB')

# ---------------------------------------------------------------------------------------------
# 15.6 Boolean
# ---------------------------------------------------------------------------------------------
ctor('Boolean', 1, 'Boolean', 'Object.prototype', "F(0) + '|' + typeof F(1) + '|' + typeof new F(1) + '|' + CLS(new F(1))",
     'false|boolean|object|Boolean', '15.6.3 / 15.6.4', protoCall="String(F.valueOf())", protoExp='false')
BP = "F.call(true) + '|' + typeof F.call(new Boolean(false)) + '|' + T(function(){ F.call({}) })"
fn('Boolean.prototype', 'toString', 0, BP, 'true|string|TypeError', '15.6.4.2')
fn('Boolean.prototype', 'valueOf', 0, BP, 'true|boolean|TypeError', '15.6.4.3')

# ---------------------------------------------------------------------------------------------
# 15.7 Number
# ---------------------------------------------------------------------------------------------
ctor('Number', 1, 'Number', 'Object.prototype', "S(F('12')) + '|' + typeof F('1') + '|' + typeof new F(1) + '|' + S(F())",
     '12|number|object|0', '15.7.3 / 15.7.4', protoCall="S(F.valueOf())", protoExp='0')
const('Number', 'MAX_VALUE', V('NumV(Canon(FALSE, BnSub(BnShl(<<1>>, 53), <<1>>), 971))'), '15.7.3.2')
const('Number', 'MIN_VALUE', V('NumV(Canon(FALSE, <<1>>, -1074))'), '15.7.3.3')
const('Number', 'NaN', V('NumV(NaN)'), '15.7.3.4')
const('Number', 'NEGATIVE_INFINITY', V('NumV(NInf)'), '15.7.3.5')
const('Number', 'POSITIVE_INFINITY', V('NumV(PInf)'), '15.7.3.6')
NP = 'Number.prototype'
# 15.7.4.2 toString([radix]): one named (optional) argument -> length 1
fn(NP, 'toString', dev('D14_number_toString_length', val(0), val(1)), "F.call(255, 16) + '|' + F.call(new Number(7))",
   'ff|7', '15.7.4.2')
fn(NP, 'toLocaleString', dev('D14_number_toLocaleString_length', val(1), val(0)),
   "typeof F.call(1) + '|' + T(function(){ F.call({}) })", 'string|TypeError', '15.7.4.3')
fn(NP, 'valueOf', 0, "var v = F.call(new Number(5)); S(v) + '|' + typeof v + '|' + T(function(){ F.call({}) })",
   '5|number|TypeError', '15.7.4.4')
# (the probe stays clear of the exponent digits and of trailing zeros under toPrecision: findings D70, D80 of C06)
NFP = "F.call(1.5, 2).substring(0, 5)"
fn(NP, 'toFixed', 1, NFP, '1.50', '15.7.4.5')
fn(NP, 'toExponential', 1, NFP, '1.50e', '15.7.4.6')
fn(NP, 'toPrecision', 1, NFP, '1.5', '15.7.4.7')

# ---------------------------------------------------------------------------------------------
# 15.8 Math
# ---------------------------------------------------------------------------------------------
obj('Math', 'Math', 'Object.prototype', js='Math', clause='15.8')
for n, k in [('E', 'KE'), ('LN10', 'KLN10'), ('LN2', 'KLN2'), ('LOG2E', 'KLOG2E'), ('LOG10E', 'KLOG10E'),
             ('PI', 'KPI'), ('SQRT1_2', 'KSQRT1_2'), ('SQRT2', 'KSQRT2')]:
    const('Math', n, V('NumV(%s)' % k), '15.8.1')
# MV(F): F at -0, 1, -1, +Inf, -Inf, 0.5, -0.5, 2.25 ; results that ES5 fixes exactly (special values,
# integers) verbatim, every "implementation-dependent approximation" reduced to its sign
MATH1 = [
    ('abs', '0,1,1,Inf,Inf,+,+,+', '15.8.2.1'),
    ('acos', '+,0,+,NaN,NaN,+,+,NaN', '15.8.2.2'),
    ('asin', '-0,+,-,NaN,NaN,+,-,NaN', '15.8.2.3'),
    ('atan', '-0,+,-,+,-,+,-,+', '15.8.2.4'),
    ('ceil', '-0,1,-1,Inf,-Inf,1,-0,3', '15.8.2.6'),
    ('cos', '1,+,+,NaN,NaN,+,+,-', '15.8.2.7'),
    ('exp', '1,+,+,Inf,0,+,+,+', '15.8.2.8'),
    ('floor', '-0,1,-1,Inf,-Inf,0,-1,2', '15.8.2.9'),
    ('log', '-Inf,0,NaN,Inf,NaN,-,NaN,+', '15.8.2.10'),
    ('round', '-0,1,-1,Inf,-Inf,1,-0,2', '15.8.2.15'),
    ('sin', '-0,+,-,NaN,NaN,+,-,+', '15.8.2.16'),
    ('sqrt', '-0,1,NaN,Inf,NaN,+,NaN,+', '15.8.2.17'),
    ('tan', '-0,+,-,NaN,NaN,+,-,-', '15.8.2.18'),
]
for n, e, cl in MATH1:
    fn('Math', n, 1, "MV(F)", e, cl)
fn('Math', 'atan2', dev('D14_atan2_length', val(1), val(2)), "S(F(-0, 1)) + '|' + S(F(0, 0)) + '|' + (F(1, -1) > 2)",
   '-0|0|true', '15.8.2.5')
fn('Math', 'max', 2, "S(F(1, 3, 2)) + '|' + S(F())", '3|-Infinity', '15.8.2.11')
fn('Math', 'min', 2, "S(F(1, 3, 2)) + '|' + S(F())", '1|Infinity', '15.8.2.12')
fn('Math', 'pow', 2, "S(F(NaN, 0)) + '|' + S(F(0, -1)) + '|' + S(F(-0, -3))", '1|Infinity|-Infinity', '15.8.2.13')
fn('Math', 'random', 0, "var r = F(); typeof r + '|' + (r >= 0 && r < 1)", 'number|true', '15.8.2.14')

# ---------------------------------------------------------------------------------------------
# 15.9 Date   (the check process runs with LocalTZA = +05:30, no daylight saving time)
# ---------------------------------------------------------------------------------------------
TZMIN = 330
EPOCH = datetime.datetime(1970, 1, 1)


def utc(y, mo, d, h=0, mi=0, s=0, ms=0):
    """15.9.1.10 - 15.9.1.13 MakeTime/MakeDay/MakeDate, month 0-based"""
    return int((datetime.datetime(y, mo + 1, d, h, mi, s) - EPOCH).total_seconds()) * 1000 + ms


def loc(y, mo, d, h=0, mi=0, s=0, ms=0):
    """15.9.1.9 UTC(t) = t - LocalTZA (no DST)"""
    return utc(y, mo, d, h, mi, s, ms) - TZMIN * 60000


# every local and UTC field of T0 is a different number:
# UTC 1999-12-31T20:47:38.009 (Friday) = local 2000-01-01T02:17:38.009 (Saturday)
T0 = utc(1999, 11, 31, 20, 47, 38, 9)
assert T0 == loc(2000, 0, 1, 2, 17, 38, 9)
assert datetime.datetime(1999, 12, 31).weekday() == 4 and datetime.datetime(2000, 1, 1).weekday() == 5
T1 = T0 - 9
ctor('Date', 7, 'Date', 'Object.prototype',
     "typeof F() + '|' + S(new F(5).getTime()) + '|' + CLS(new F(5)) + '|' + S(new F(1999, 11, 31, 20, 47, 38, 9).getTime())",
     'string|5|Date|%d' % loc(1999, 11, 31, 20, 47, 38, 9), '15.9.4 / 15.9.5',
     # 15.9.5: the Date prototype object is itself a Date object whose time value is NaN (finding D12g of property C12)
     protoCall="S(F.getTime())", protoExp=dev('D12g_date_prototype_time_value_is_zero', val('0'), val('NaN')))
fn('Date', 'parse', 1, "S(F('1999-12-31T20:47:38.009Z', 5))", str(T0), '15.9.4.2')
fn('Date', 'UTC', 7, "S(F(1999, 11, 31, 20, 47, 38, 9)) + '|' + S(F(1999, 11))", '%d|%d' % (T0, utc(1999, 11, 1)), '15.9.4.3')
fn('Date', 'now', 0, "typeof F(0, 0) + '|' + (F(0, 0) >= %d)" % T0, 'number|true', '15.9.4.4')
DP = 'Date.prototype'
RTP = "var s = F.call(new Date(%d)); typeof s + '|' + S(Date.parse(s))" % T1
fn(DP, 'toString', 0, RTP, 'string|%d' % T1, '15.9.5.2 / 15.9.4.2')
# "date portion" / "time portion": d1, d2 same local day, d1, d3 same local time of day
DTP = ("var a = F.call(new Date(%d)), b = F.call(new Date(%d)), c = F.call(new Date(%d)); typeof a + '|' + (a === b) + '|' + (a === c)"
       % (T1, T1 + 3600000, T1 + 86400000))
fn(DP, 'toDateString', 0, DTP, 'string|true|false', '15.9.5.3')
fn(DP, 'toTimeString', 0, DTP, 'string|false|true', '15.9.5.4')
fn(DP, 'toLocaleString', 0, DTP, 'string|false|false', '15.9.5.5')
fn(DP, 'toLocaleDateString', 0, DTP, 'string|true|false', '15.9.5.6')
fn(DP, 'toLocaleTimeString', 0, DTP, 'string|false|true', '15.9.5.7')
GETP = "S(F.call(new Date(%d)))" % T0
fn(DP, 'valueOf', 0, GETP, str(T0), '15.9.5.8')
fn(DP, 'getTime', 0, GETP, str(T0), '15.9.5.9')
for i, (n, lv, uv) in enumerate([('FullYear', 2000, 1999), ('Month', 0, 11), ('Date', 1, 31), ('Day', 6, 5),
                                 ('Hours', 2, 20), ('Minutes', 17, 47), ('Seconds', 38, 38), ('Milliseconds', 9, 9)]):
    fn(DP, 'get' + n, 0, GETP, str(lv), '15.9.5.%d' % (10 + 2 * i))
    fn(DP, 'getUTC' + n, 0, GETP, str(uv), '15.9.5.%d' % (11 + 2 * i))
fn(DP, 'getTimezoneOffset', 0, GETP, str(-TZMIN), '15.9.5.26')


def setp(args):
    return "var d = new Date(%d); var r = F.call(d, %s); S(r) + '|' + (r === d.getTime())" % (T0, args)


def sete(t):
    return '%d|true' % t


fn(DP, 'setTime', 1, setp('5'), sete(5), '15.9.5.27')
fn(DP, 'setMilliseconds', 1, setp('1'), sete(T0 - 8), '15.9.5.28')
fn(DP, 'setUTCMilliseconds', 1, setp('1'), sete(T0 - 8), '15.9.5.29')
fn(DP, 'setSeconds', 2, setp('1, 2'), sete(loc(2000, 0, 1, 2, 17, 1, 2)), '15.9.5.30')
fn(DP, 'setUTCSeconds', 2, setp('1, 2'), sete(utc(1999, 11, 31, 20, 47, 1, 2)), '15.9.5.31')
fn(DP, 'setMinutes', 3, setp('1, 2, 3'), sete(loc(2000, 0, 1, 2, 1, 2, 3)), '15.9.5.32')
fn(DP, 'setUTCMinutes', 3, setp('1, 2, 3'), sete(utc(1999, 11, 31, 20, 1, 2, 3)), '15.9.5.33')
fn(DP, 'setHours', 4, setp('3, 4, 5, 6'), sete(loc(2000, 0, 1, 3, 4, 5, 6)), '15.9.5.34')
fn(DP, 'setUTCHours', 4, setp('3, 4, 5, 6'), sete(utc(1999, 11, 31, 3, 4, 5, 6)), '15.9.5.35')
fn(DP, 'setDate', 1, setp('15'), sete(loc(2000, 0, 15, 2, 17, 38, 9)), '15.9.5.36')
fn(DP, 'setUTCDate', 1, setp('15'), sete(utc(1999, 11, 15, 20, 47, 38, 9)), '15.9.5.37')
fn(DP, 'setMonth', 2, setp('5, 10'), sete(loc(2000, 5, 10, 2, 17, 38, 9)), '15.9.5.38')
fn(DP, 'setUTCMonth', 2, setp('5, 10'), sete(utc(1999, 5, 10, 20, 47, 38, 9)), '15.9.5.39')
fn(DP, 'setFullYear', 3, setp('1997, 5, 10'), sete(loc(1997, 5, 10, 2, 17, 38, 9)), '15.9.5.40')
fn(DP, 'setUTCFullYear', 3, setp('1997, 5, 10'), sete(utc(1997, 5, 10, 20, 47, 38, 9)), '15.9.5.41')
fn(DP, 'toUTCString', 0, RTP, 'string|%d' % T1, '15.9.5.42 / 15.9.4.2')
fn(DP, 'toISOString', 0, "F.call(new Date(%d))" % T0, '1999-12-31T20:47:38.009Z', '15.9.5.43 / 15.9.1.15')
fn(DP, 'toJSON', 1,
   "F.call({toISOString:function(){ return 'X' }, valueOf:function(){ return 1 }}, 'k') + '|' + F.call({toISOString:function(){ return 'X' }, valueOf:function(){ return NaN }})",
   'X|null', '15.9.5.44')
fn(DP, 'getYear', 0, GETP, '100', 'B.2.4', grp='annexB')
fn(DP, 'setYear', 1, setp('97'), sete(loc(1997, 0, 1, 2, 17, 38, 9)), 'B.2.5', grp='annexB')
# B.2.6: "The Function object that is the initial value of Date.prototype.toGMTString is the same Function
# object that is the initial value of Date.prototype.toUTCString."
# (informative: identity with toUTCString is not compared)
fn(DP, 'toGMTString', 0, RTP, 'string|%d' % T1, 'B.2.6', grp='annexB')

# ---------------------------------------------------------------------------------------------
# 15.10 RegExp
# ---------------------------------------------------------------------------------------------
# 15.10.6: the RegExp prototype object is itself a regular expression object ([[Class]] "RegExp"); its
# data properties are set as if it was created by new RegExp() (pattern "", flags undefined)
ctor('RegExp', 2, 'RegExp', 'Object.prototype',
     "var r = F('a', 'g'); CLS(r) + '|' + r.global + '|' + (F(r) === r) + '|' + new F('b').test('abc')",
     'RegExp|true|true|true', '15.10.5 / 15.10.6',
     # the prototype matches like new RegExp(): the empty pattern matches everywhere.  otto: nil pointer
     # dereference, a Go run-time panic (inside the probe's try statement it surfaces as a thrown non-Error value;
     # outside any try it leaves Run as a Go panic)
     protoCall="F.test('abc') + '|' + F.exec('abc')[0].length",
     protoExp=dev('D14_regexp_prototype_exec_nil_panic', V('[t |-> "throw", name |-> "value"]'), val('true|0')))
RP = 'RegExp.prototype'
fn(RP, 'exec', 1, "var m = F.call(/b(c)/, 'abcd'); m.index + '|' + m.join()", '1|bc,c', '15.10.6.2')
fn(RP, 'test', 1, "F.call(/b/, 'abc') + '|' + typeof F.call(/b/, 'x')", 'true|boolean', '15.10.6.3')
fn(RP, 'toString', 0, "F.call(/a.b/gi)", '/a.b/gi', '15.10.6.4')
# 15.10.4.1: for an empty pattern the source is an implementation-defined Pattern such as "(?:)": type only
RXD = 'D14_regexp_prototype_no_instance_properties'
const('RegExp.prototype', 'source', '', '15.10.7.1')
ROWS[-1]['valmode'] = 'type'
const('RegExp.prototype', 'global', False, '15.10.7.2')
const('RegExp.prototype', 'ignoreCase', False, '15.10.7.3')
const('RegExp.prototype', 'multiline', False, '15.10.7.4')
for r in ROWS[-4:]:
    r['kind'] = dev(RXD, 'missing', 'constant')
value('RegExp.prototype', 'lastIndex', 0, '15.10.7.5', attrs='TFF')
ROWS[-1]['kind'] = dev(RXD, 'missing', 'value')

# ---------------------------------------------------------------------------------------------
# 15.11 Error
# ---------------------------------------------------------------------------------------------
def errcall(name):
    return ("var e = F('m'); var n = new F(); CLS(e) + '|' + e.message + '|' + e.name + '|' + (e instanceof F) + '|' + "
            "(Object.getPrototypeOf(e) === F.prototype) + '|' + n.hasOwnProperty('message')",
            'Error|m|%s|true|true|false' % name)


c, e = errcall('Error')
# 15.11.4: the Error prototype object is itself an Error object ([[Class]] "Error")
ctor('Error', 1, 'Error', 'Object.prototype', c, e, '15.11.3 / 15.11.4', protoCall="F.toString()", protoExp='Error')
value('Error.prototype', 'name', 'Error', '15.11.4.2')
value('Error.prototype', 'message', '', '15.11.4.3')
fn('Error.prototype', 'toString', 0,
   "F.call({name:'N', message:'m'}) + '|' + F.call({message:'m'}) + '|' + F.call({name:'N'}) + '|' + T(function(){ F.call(1) })",
   dev('D14_error_toString_non_object_receiver', val('N: m|Error: m|N|no'), val('N: m|Error: m|N|TypeError')), '15.11.4.4')
for n in ['EvalError', 'RangeError', 'ReferenceError', 'SyntaxError', 'TypeError', 'URIError']:
    c, e = errcall(n)
    # 15.11.7.5: [[Prototype]] of a NativeError constructor is the Function prototype object;
    # 15.11.7.7: each NativeError prototype object is an Error object whose [[Prototype]] is Error.prototype
    ctor(n, 1, dev('D14_native_error_prototype_class', n, 'Error'), 'Error.prototype', c, e, '15.11.7 (15.11.6 %s)' % n)
    value(n + '.prototype', 'name', n, '15.11.7.9')
    value(n + '.prototype', 'message', '', '15.11.7.10')

# ---------------------------------------------------------------------------------------------
# 15.12 JSON
# ---------------------------------------------------------------------------------------------
obj('JSON', 'JSON', 'Object.prototype', js='JSON', clause='15.12')
fn('JSON', 'parse', 2, "F('[1,[2,3]]')[1][1]", 3, '15.12.2')
fn('JSON', 'stringify', 3, "F([1, [2, null], true, 'x'].slice(0, 3))", '[1,[2,null],true]', '15.12.3')

# ---------------------------------------------------------------------------------------------
# Prototype objects that are themselves instances of their class: what distinguishes the KIND of object,
# beyond [[Class]] and the initial property values
# ---------------------------------------------------------------------------------------------
# 15.4.4 "The Array prototype object is itself an array": the [[DefineOwnProperty]] of 15.4.5.1.
#  step 4: writing an array index >= length sets length to index + 1;  step 3: writing a smaller length deletes the
#  elements at and above it;  step 3.c: a length that is not a uint32 throws a RangeError
probe('Array.prototype',
      "var r = []; F[3] = 'x'; r.push(F.length); F.length = 1; r.push(3 in F, F.length); F.length = 0; r.push(F.length); "
      "delete F[3]; r.push(Object.getOwnPropertyNames(F).indexOf('3')); r.join('|')",
      '4|false|1|0|-1', '15.4.4 / 15.4.5.1 steps 3, 4')
probe('Array.prototype',
      "var t = T(function(){ F.length = -1 }); F.length = 0; t + '|' + F.length + '|' + Array.isArray(F) + '|' + [1].concat(F).length",
      'RangeError|0|true|1', '15.4.4 / 15.4.5.1 step 3.c / 15.4.3.2 / 15.4.4.4 step 5.b')
probe('Array.prototype', "var n = F.push('a', 'b'); var r = n + '|' + F.length + '|' + F.join(); F.pop(); F.pop(); r + '|' + F.length + '|' + (0 in F)",
      '2|2|a,b|0|false', '15.4.4 / 15.4.4.7 / 15.4.4.6')
# 15.5.4 "The String prototype object is itself a String object whose value is an empty String": 15.5.5.1 length,
# 15.5.5.2 [[GetOwnProperty]] (no index property), 15.5.4.2/3 accept it as this value
probe('String.prototype',
      "F.length = 5; F.length + '|[' + F.charAt(0) + ']|' + (F[0] === undefined) + '|[' + F.toString() + ']|[' + F.valueOf() + ']|' + "
      "Object.getOwnPropertyNames(F).indexOf('0') + '|' + (F + 'x') + '|' + (F == '')",
      '0|[]|true|[]|[]|-1|x|true', '15.5.4 / 15.5.5.1 / 15.5.5.2')
# 15.6.4 "a Boolean object whose value is false"
probe('Boolean.prototype', "F.valueOf() + '|' + typeof F.valueOf() + '|' + F.toString() + '|' + (F == false) + '|' + !!F",
      'false|boolean|false|true|true', '15.6.4')
# 15.7.4 "a Number object whose value is +0"
probe('Number.prototype', "S(F.valueOf()) + '|' + typeof F.valueOf() + '|' + F.toString() + '|' + F.toFixed(1) + '|' + (1 / F.valueOf() > 0) + '|' + (F + 1)",
      '0|number|0|0.0|true|1', '15.7.4')
# 15.9.5 "a Date object whose time value is NaN"
probe('Date.prototype', "S(F.getTime()) + '|' + S(F.valueOf()) + '|' + S(F.getUTCFullYear()) + '|' + S(F.getTimezoneOffset()) + '|' + T(function(){ F.toISOString() })",
      dev('D12g_date_prototype_time_value_is_zero', val('0|0|1970|-330|no'), val('NaN|NaN|NaN|NaN|RangeError')), '15.9.5 / 15.9.5.43')
# 15.10.6 "a regular expression object ... as if created by new RegExp()": data properties of 15.10.7
probe('RegExp.prototype', "F.global + '|' + F.ignoreCase + '|' + F.multiline + '|' + F.lastIndex + '|' + typeof F.source",
      dev(RXD, val('undefined|undefined|undefined|undefined|undefined'), val('false|false|false|0|string')), '15.10.6 / 15.10.7')
probe('RegExp.prototype', "var m = F.exec('ab'); m.index + '|' + m.length + '|[' + m[0] + ']|' + 'ab'.replace(F, '-') + '|' + 'ab'.split(F).length",
      '0|1|[]|-ab|2', '15.10.6 / 15.10.6.2 / 15.5.4.11 / 15.5.4.14')
# 15.3.4 "itself a Function object that, when invoked, accepts any arguments and returns undefined"; length 0
probe('Function.prototype',
      "typeof F + '|' + (F() === undefined) + '|' + (F(1, 2, 3) === undefined) + '|' + (F.call({}, 1) === undefined) + '|' + "
      "(F.apply(null, [1]) === undefined) + '|' + F.length + '|' + (typeof F.bind({}) === 'function')",
      'function|true|true|true|true|0|true', '15.3.4')
# 15.11.4 "itself an Error object": name, message (15.11.4.2, 15.11.4.3), toString on itself
probe('Error.prototype', "F.name + '|[' + F.message + ']|' + F.toString() + '|' + (new Error().name === F.name) + '|' + (new Error().message === F.message)",
      'Error|[]|Error|true|true', '15.11.4')
for n in ['EvalError', 'RangeError', 'ReferenceError', 'SyntaxError', 'TypeError', 'URIError']:
    probe(n + '.prototype', "F.name + '|[' + F.message + ']|' + F.toString() + '|' + (F instanceof Error) + '|' + new %s('m').toString()" % n,
          '%s|[]|%s|true|%s: m' % (n, n, n), '15.11.7.7 - 15.11.7.10')
# 15.2.4 the Object prototype object: an ordinary extensible object without prototype
probe('Object.prototype', "F.zzProbe = 1; ({}).zzProbe + '|' + delete F.zzProbe + '|' + ('zzProbe' in {}) + '|' + F.toString() + '|' + (F.valueOf() === F)",
      '1|true|false|[object Object]|true', '15.2.4')
# 15.8, 15.12: Math and JSON are not functions
probe('Math', "T(function(){ F() }) + '|' + T(function(){ new F() }) + '|' + typeof F", 'TypeError|TypeError|object', '15.8')
probe('JSON', "T(function(){ F() }) + '|' + T(function(){ new F() }) + '|' + typeof F", 'TypeError|TypeError|object', '15.12')

# ---------------------------------------------------------------------------------------------
# Instances (15.x.5, 13.2, 10.6): objects created by the dynamic paths of the implementation
# ---------------------------------------------------------------------------------------------
I = 'inst'
# 15.2.2.1 / 11.1.5
obj('i:object', 'Object', 'Object.prototype', js='({})', clause='15.2.2.1', grp=I)
obj('i:objectNew', 'Object', 'Object.prototype', js='(new Object())', clause='15.2.2.1', grp=I)
obj('i:objectNull', 'Object', 'null', js='Object.create(null)', clause='15.2.3.5', grp=I)
# 15.4.5.2 length {w,~e,~c}; 15.4.2.1/11.1.4 elements {w,e,c}
obj('i:array', 'Array', 'Array.prototype', js='[7, 8]', clause='15.4.5', grp=I)
value('i:array', 'length', 2, '15.4.5.2', attrs='TFF')
element('i:array', '0', 7, 'TTT', '11.1.4')
element('i:array', '1', 8, 'TTT', '11.1.4')
obj('i:arrayNew', 'Array', 'Array.prototype', js='(new Array(3))', clause='15.4.2.2', grp=I)
value('i:arrayNew', 'length', 3, '15.4.5.2', attrs='TFF')
# 15.5.5.1 length {~w,~e,~c}; 15.5.5.2 index properties {~w,e,~c}
obj('i:string', 'String', 'String.prototype', js="(new String('ab'))", clause='15.5.5', grp=I)
const('i:string', 'length', 2, '15.5.5.1')
element('i:string', '0', 'a', 'FTF', '15.5.5.2')
element('i:string', '1', 'b', 'FTF', '15.5.5.2')
obj('i:boolean', 'Boolean', 'Boolean.prototype', js='(new Boolean(true))', clause='15.6.5', grp=I)
obj('i:number', 'Number', 'Number.prototype', js='(new Number(1))', clause='15.7.5', grp=I)
obj('i:date', 'Date', 'Date.prototype', js='(new Date(0))', clause='15.9.6', grp=I)
# 15.10.7
obj('i:regexp', 'RegExp', 'RegExp.prototype', js='/a/gi', clause='15.10.7', grp=I)
const('i:regexp', 'source', 'a', '15.10.7.1')
const('i:regexp', 'global', True, '15.10.7.2')
const('i:regexp', 'ignoreCase', True, '15.10.7.3')
const('i:regexp', 'multiline', False, '15.10.7.4')
value('i:regexp', 'lastIndex', 0, '15.10.7.5', attrs='TFF')
# 15.11.5 / 15.11.2.1: the message own property is set when the argument is not undefined; ES5.1 does not
# state its attributes; the property statement (for-in shows no built-in) needs it non-enumerable
obj('i:error', mk='error-object', cls='Error', proto= 'Error.prototype', js="(new Error('m'))", clause='15.11.5', grp=I)
value('i:error', 'message', 'm', '15.11.2.1', attrs='?F?')
obj('i:typeError', mk='error-object', cls='Error', proto= 'TypeError.prototype', js="(new TypeError('m'))", clause='15.11.7.2', grp=I)
value('i:typeError', 'message', 'm', '15.11.7.4', attrs='?F?')
obj('i:thrown', mk='error-object', cls='Error', proto= 'ReferenceError.prototype', js="(function(){ try { undefinedVariable_c14 } catch (e) { return e } })()",
    clause='8.7.1 / 15.11.6.3', grp=I)
# 13.2 Creating Function Objects: length {~w,~e,~c} (15.3.5.1), prototype {w,~e,~c} (15.3.5.2) whose
# constructor {w,~e,c} is the function
obj('i:function', 'Function', 'Function.prototype', mk='function-object', js='(function(a, b){ return a })', callable=True, ctor=True,
    call="F(4, 5) + '|' + CLS(new F())", exp='4|Object', clause='13.2', grp=I)
row('i:function', 'length', 'length', v=val(2), clause='13.2 step 15 / 15.3.5.1')
row('i:function', 'prototype', 'object', attrs='TFF', target='i:function.prototype', clause='13.2 step 18 / 15.3.5.2')
obj('i:function.prototype', 'Object', 'Object.prototype', via=('i:function', 'prototype'), clause='13.2 step 16', grp=I)
ref('i:function.prototype', 'constructor', 'i:function', '13.2 step 17', attrs='TFT')
# 15.3.2.1 new Function(p1, p2, body) -> 13.2
obj('i:functionNew', 'Function', 'Function.prototype', mk='function-object', js="(new Function('a', 'b', 'c', 'return c'))", callable=True,
    ctor=True, call="F(4, 5, 6) + '|' + CLS(new F())", exp='6|Object', clause='15.3.2.1', grp=I)
row('i:functionNew', 'length', 'length', v=val(3), clause='15.3.2.1 / 15.3.5.1')
row('i:functionNew', 'prototype', 'object', attrs='TFF', target='i:functionNew.prototype', clause='15.3.5.2')
obj('i:functionNew.prototype', 'Object', 'Object.prototype', via=('i:functionNew', 'prototype'), clause='13.2 step 16', grp=I)
ref('i:functionNew.prototype', 'constructor', 'i:functionNew', '13.2 step 17', attrs='TFT')
# 15.3.4.5 bind: [[Class]] "Function", [[Prototype]] Function.prototype, length = max(0, L - #args) {~w,~e,~c},
# [[Extensible]] true; "Function objects created using Function.prototype.bind do not have a prototype property"
obj('i:bound', 'Function', 'Function.prototype', js='(function(a, b, c){ return this.k + a + b }).bind({k:1}, 2)',
    callable=True, call="F(3) + '|' + (new F(3) instanceof Object)", exp='6|true', clause='15.3.4.5', grp=I)
row('i:bound', 'length', 'length', v=val(2), clause='15.3.4.5 step 15-16')
row('i:bound', 'prototype', dev('D14_bound_function_has_prototype', 'unlisted-object', 'absent'), attrs='TFF',
    clause='15.3.4.5 NOTE / 15.3.5.2 NOTE')
# 15.3.4.5 steps 20, 21: caller and arguments are accessors {[[Get]]: thrower, [[Set]]: thrower, ~e, ~c}
for n in ['caller', 'arguments']:
    row('i:bound', n, dev('D14_bound_function_caller_arguments_not_throwers', 'value', 'thrower'), attrs='FFF',
        clause='15.3.4.5 step 20-21 / 13.2.3')
# 10.6 arguments object (non-strict): [[Class]] "Arguments", [[Prototype]] Object.prototype,
# length {w,~e,c}, indices {w,e,c}, callee {w,~e,c}
obj('i:argsFn', 'Function', 'Function.prototype', mk='function-object', js='(function(a){ return arguments })', callable=True, ctor=True,
    clause='13.2', grp=I)
row('i:argsFn', 'length', 'length', v=val(1), clause='13.2 step 15 / 15.3.5.1')
obj('i:arguments', 'Arguments', 'Object.prototype', js="REG['i:argsFn'](5, 6)", clause='10.6', grp=I)
value('i:arguments', 'length', 2, '10.6 step 7', attrs='TFT')
element('i:arguments', '0', 5, 'TTT', '10.6 step 11.b')
element('i:arguments', '1', 6, 'TTT', '10.6 step 11.b')
ref('i:arguments', 'callee', 'i:argsFn', '10.6 step 13.a', attrs='TFT')
# a function provided by the host through the public Go API (global.go newNativeFunction): a Function object
obj('i:hostFunction', 'Function', 'Function.prototype', mk='function-object', js='HOSTFN', callable=True, call="F(20, 22)", exp=42,
    clause='15 (built-in function objects) / 15.3.5', grp=I)

# 13 function declaration, 11.1.5 accessor functions in an object initialiser: function objects made by 13.2 as well
obj('i:functionDecl', 'Function', 'Function.prototype', mk='function-object',
    js='(function(){ function f(a, b, c){ return c } return f })()', callable=True, ctor=True,
    call="F(4, 5, 6) + '|' + CLS(new F())", exp='6|Object', clause='13 / 13.2', grp=I)
row('i:functionDecl', 'length', 'length', v=val(3), clause='13.2 step 15 / 15.3.5.1')
row('i:functionDecl', 'prototype', 'object', attrs='TFF', target='i:functionDecl.prototype', clause='15.3.5.2')
obj('i:functionDecl.prototype', 'Object', 'Object.prototype', via=('i:functionDecl', 'prototype'), clause='13.2 step 16', grp=I)
ref('i:functionDecl.prototype', 'constructor', 'i:functionDecl', '13.2 step 17', attrs='TFT')
obj('i:setter', 'Function', 'Function.prototype', mk='function-object',
    js="Object.getOwnPropertyDescriptor({set x(v){ this.y = v }}, 'x').set", callable=True, ctor=True,
    call="var o = {}; F.call(o, 7); o.y", exp=7, clause='11.1.5 / 13.2', grp=I)
row('i:setter', 'length', 'length', v=val(1), clause='13.2 step 15')
row('i:setter', 'prototype', 'object', attrs='TFF', target='i:setter.prototype', clause='15.3.5.2')
obj('i:setter.prototype', 'Object', 'Object.prototype', via=('i:setter', 'prototype'), clause='13.2 step 16', grp=I)
ref('i:setter.prototype', 'constructor', 'i:setter', '13.2 step 17', attrs='TFT')

# objects that library functions create: every property they define is {w, e, c}
# 15.10.6.2 steps 15-21: the array exec returns
obj('i:execResult', 'Array', 'Array.prototype', js="/b(c)/.exec('abcd')", clause='15.10.6.2', grp=I)
value('i:execResult', 'length', 2, '15.10.6.2 step 19 / 15.4.5.2', attrs='TFF')
element('i:execResult', '0', 'bc', 'TTT', '15.10.6.2 step 20')
element('i:execResult', '1', 'c', 'TTT', '15.10.6.2 step 21')
element('i:execResult', 'index', 1, 'TTT', '15.10.6.2 step 17')
element('i:execResult', 'input', 'abcd', 'TTT', '15.10.6.2 step 18')
# 8.10.4 FromPropertyDescriptor
obj('i:descriptor', 'Object', 'Object.prototype', js="Object.getOwnPropertyDescriptor({x:1}, 'x')", clause='8.10.4 / 15.2.3.3', grp=I)
element('i:descriptor', 'configurable', True, 'TTT', '8.10.4 step 6')
element('i:descriptor', 'enumerable', True, 'TTT', '8.10.4 step 5')
element('i:descriptor', 'value', 1, 'TTT', '8.10.4 step 3.a')
element('i:descriptor', 'writable', True, 'TTT', '8.10.4 step 3.b')
obj('i:accessorDescriptor', 'Object', 'Object.prototype', js="Object.getOwnPropertyDescriptor({get x(){ return 1 }}, 'x')",
    clause='8.10.4 / 15.2.3.3', grp=I)
element('i:accessorDescriptor', 'configurable', True, 'TTT', '8.10.4 step 6')
element('i:accessorDescriptor', 'enumerable', True, 'TTT', '8.10.4 step 5')
row('i:accessorDescriptor', 'get', 'unlisted-function', attrs='TTT', clause='8.10.4 step 4.a')
element('i:accessorDescriptor', 'set', None, 'TTT', '8.10.4 step 4.b')
# arrays made by 15.2.3.14 keys, 15.5.4.14 split, 15.4.4.19 map, 15.12.2 parse, 15.2.3.4 getOwnPropertyNames
for i, js, e0, cl in [('i:keys', "Object.keys({a:1, b:2})", 'a', '15.2.3.14 step 5'),
                      ('i:split', "'a,b'.split(',')", 'a', '15.5.4.14 step 13.c.iii.1'),
                      ('i:mapResult', "['a', 'b'].map(function(x){ return x })", 'a', '15.4.4.19 step 8.c.iii'),
                      ('i:jsonParsed', "JSON.parse('[7, 8]')", 7, '15.12.2 / 15.12.1.2 JSONArray'),
                      ('i:matchResult', "'a1b2'.match(/[a-z]/g)", 'a', '15.5.4.10 step 8.f.iii')]:
    obj(i, 'Array', 'Array.prototype', js=js, clause=cl, grp=I)
    value(i, 'length', 2, '15.4.5.2', attrs='TFF')
    element(i, '0', e0, 'TTT', cl)
    element(i, '1', {'a': 'b', 7: 8}[e0], 'TTT', cl)
    forin(i, js, 'array made by a library function')
obj('i:jsonObject', 'Object', 'Object.prototype', js="JSON.parse('[{}]')[0]", clause='15.12.2', grp=I)
forin('i:execResult', "/b(c)/.exec('abcd')", 'array made by exec')
forin('i:descriptor', "Object.getOwnPropertyDescriptor({x:1}, 'x')", 'property descriptor object')

# for-in (12.6.4) over ordinary objects: own enumerable properties, then those of the prototype chain
forin('i:object', '({})', 'ordinary object')
forin('i:objectNew', '(new Object())', 'ordinary object')
forin('i:array', '[7, 8]', 'array')
forin('i:string', "(new String('ab'))", 'String object')
forin('i:function', '(function(a, b){ return a })', 'function')
forin('i:bound', '(function(a, b, c){}).bind({k:1}, 2)', 'bound function')
forin('i:arguments', '(function(a){ return arguments })(5, 6)', 'arguments object')
forin('i:error', "(new Error('m'))", 'Error')
forin('i:typeError', "(new TypeError('m'))", 'native error')
forin('i:thrown', "(function(){ try { undefinedVariable_c14 } catch (e) { return e } })()", 'error thrown by the runtime')
forin('i:boolean', '(new Boolean(true))', 'Boolean object')
forin('i:number', '(new Number(1))', 'Number object')
forin('i:date', '(new Date(0))', 'Date object')
forin('i:regexp', '/a/gi', 'RegExp object')
forin('i:hostFunction', 'HOSTFN', 'host function')
forin('Math', 'Math', 'Math')
forin('JSON', 'JSON', 'JSON')
for c in ['Object', 'Function', 'Array', 'String', 'Boolean', 'Number', 'Date', 'RegExp', 'Error', 'TypeError']:
    forin(c, c, 'constructor')
    forin(c + '.prototype', c + '.prototype', 'prototype object')


# ---------------------------------------------------------------------------------------------
def rec(d, keys):
    def f(k):
        if k == 'attrs':
            return '<<' + ', '.join('"%s"' % ch for ch in d[k]) + '>>'
        return tla(d[k])
    return '[' + ', '.join('%s |-> %s' % (k, f(k)) for k in keys) + ']'


def main():
    # for-in order is not specified (12.6.4): the harness sorts the names it sees, the table lists the
    # enumerable properties of an object in ascending code unit order
    last = {}
    for r in ROWS:
        if isinstance(r['attrs'], str) and len(r['attrs']) == 3 and r['attrs'][1] == 'T':
            assert last.get(r['owner'], '') < r['name'], (r['owner'], r['name'])
            last[r['owner']] = r['name']
    out = []
    w = out.append
    w('---------------------------- MODULE LibShapeTab ----------------------------')
    w('(* GENERATED by gen_libshape.py from the table transcribed from ECMA-262 5.1 *)')
    w('(* clause 15 (and 10.6, 13.2, Annex B.2) - do not edit.                       *)')
    w('(* Objs: the objects; Rows: their own properties; ForIns: for-in subjects.    *)')
    w('EXTENDS MathConst')
    w('CONSTANT Dev')
    w('D(x) == x \\in Dev')
    w('')
    w('Objs == <<')
    ok = ['id', 'js', 'vo', 'vn', 'cls', 'proto', 'callable', 'ctor', 'ext', 'call', 'callexp', 'clause', 'grp', 'mk', 'reflect']
    w(',\n'.join('  ' + rec(o, ok) for o in OBJS))
    w('>>')
    w('')
    w('Rows == <<')
    rk = ['owner', 'name', 'kind', 'attrs', 'target', 'val', 'valmode', 'clause']
    w(',\n'.join('  ' + rec(r, rk) for r in ROWS))
    w('>>')
    w('')
    w('Probes == <<')
    w(',\n'.join('  ' + rec(f, ['id', 'call', 'callexp', 'clause']) for f in PROBES))
    w('>>')
    w('')
    w('ForIns == <<')
    w(',\n'.join('  ' + rec(f, ['id', 'js', 'note']) for f in FORIN))
    w('>>')
    w('=============================================================================')
    sys.stdout.write('\n'.join(out) + '\n')
    sys.stderr.write('objects %d rows %d forin %d probes %d\n' % (len(OBJS), len(ROWS), len(FORIN), len(PROBES)))


main()
