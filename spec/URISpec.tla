------------------------------ MODULE URISpec -------------------------------
(* ES5.1 15.1.3 URI handling functions (Encode / Decode with the UTF-8       *)
(* transformation of Table 21) and Annex B.2.1 / B.2.2 escape / unescape,    *)
(* on strings as sequences of UTF-16 code units.                             *)
(* A result is [thr, v, log] as in Ops.tla: thr = "" and v the string, or    *)
(* thr = "URIError" (v = undefined), or whatever ToString(argument) threw.   *)
(* Known deviations of otto are the branches D("...") (see                   *)
(* known_findings.d/C13.json); with Dev = {} the module is ES5.              *)
EXTENDS Ops

UOk(s, log) == R(StrV(s), log)
UErr(log)   == T("URIError", log)

(* 15.1.3 character classes *)
IsAlphaU(u) == (u >= 65 /\ u <= 90) \/ (u >= 97 /\ u <= 122)
UriMark     == {45, 95, 46, 33, 126, 42, 39, 40, 41}          \* - _ . ! ~ * ' ( )
UriReserved == {59, 47, 63, 58, 64, 38, 61, 43, 36, 44}       \* ; / ? : @ & = + $ ,
IsUriUnescaped(u) == IsAlphaU(u) \/ IsDigit(u) \/ u \in UriMark
Hash == 35

(* 15.1.3.3: unescapedURISet = uriReserved + uriUnescaped + "#"; 15.1.3.4: uriUnescaped *)
EncUnescaped(mode, u) ==
    IF mode = "uri" THEN IsUriUnescaped(u) \/ u \in UriReserved \/ u = Hash
    ELSE IsUriUnescaped(u)
(* 15.1.3.1: reservedURISet = uriReserved + "#"; 15.1.3.2: empty *)
DecReserved(mode, u) == mode = "uri" /\ (u \in UriReserved \/ u = Hash)

IsHiSur(u) == u >= 55296 /\ u <= 56319      \* D800..DBFF
IsLoSur(u) == u >= 56320 /\ u <= 57343      \* DC00..DFFF
PairCP(h, l) == (h - 55296) * 1024 + (l - 56320) + 65536

HexUp(n) == IF n < 10 THEN 48 + n ELSE 55 + n               \* uppercase hexadecimal digit
PctByte(b) == <<37, HexUp(b \div 16), HexUp(b % 16)>>

(* Table 21: code point -> octets *)
UTF8(V) ==
    IF V < 128 THEN <<V>>
    ELSE IF V < 2048 THEN <<192 + (V \div 64), 128 + (V % 64)>>
    ELSE IF V < 65536 THEN <<224 + (V \div 4096), 128 + ((V \div 64) % 64), 128 + (V % 64)>>
    ELSE <<240 + (V \div 262144), 128 + ((V \div 4096) % 64), 128 + ((V \div 64) % 64), 128 + (V % 64)>>

RECURSIVE PctAll(_, _)
PctAll(oct, i) == IF i > Len(oct) THEN <<>> ELSE PctByte(oct[i]) \o PctAll(oct, i + 1)

(* otto keeps strings as Go (UTF-8) strings: a surrogate code unit that is   *)
(* not part of a pair does not survive in a string VALUE, it is U+FFFD.      *)
RECURSIVE Sanitize(_, _)
Sanitize(s, k) ==
    IF k > Len(s) THEN <<>>
    ELSE IF IsHiSur(s[k]) /\ k < Len(s) /\ IsLoSur(s[k + 1]) THEN <<s[k], s[k + 1]>> \o Sanitize(s, k + 2)
    ELSE IF IsHiSur(s[k]) \/ IsLoSur(s[k]) THEN <<65533>> \o Sanitize(s, k + 1)
    ELSE <<s[k]>> \o Sanitize(s, k + 1)

(* the string a function receives.  src = "lit": any string value;          *)
(* src = "fcc": the direct result of String.fromCharCode, which otto hands   *)
(* to encodeURI / encodeURIComponent as 16-bit units (builtin.go             *)
(* encodeDecodeURI `case []uint16`), so those two see the real units.        *)
InStr(s, f, src) ==
    IF D("D27_lone_surrogate_fffd") /\ ~(src = "fcc" /\ f \in {"encodeURI", "encodeURIComponent"})
    THEN Sanitize(s, 1) ELSE s

-----------------------------------------------------------------------------
(* 15.1.3 Encode(string, unescapedSet); k is 1-based *)
RECURSIVE EncodeAt(_, _, _, _, _)
EncodeAt(s, k, mode, acc, log) ==
    IF Len(acc) < 0 THEN UErr(log)                                           \* forces acc
    ELSE IF k > Len(s) THEN UOk(acc, log)                                    \* 4.a
    ELSE LET C == s[k]
         IN  IF EncUnescaped(mode, C) THEN EncodeAt(s, k + 1, mode, Append(acc, C), log)     \* 4.c
             ELSE IF IsLoSur(C) THEN UErr(log)                                \* 4.d.i
             ELSE IF ~IsHiSur(C) THEN EncodeAt(s, k + 1, mode, acc \o PctAll(UTF8(C), 1), log)   \* 4.d.ii, v-vi
             ELSE IF k + 1 > Len(s) THEN UErr(log)                            \* 4.d.iii.2
             ELSE IF ~IsLoSur(s[k + 1]) THEN UErr(log)                        \* 4.d.iii.4
             ELSE EncodeAt(s, k + 2, mode, acc \o PctAll(UTF8(PairCP(C, s[k + 1])), 1), log)   \* 4.d.iii.5

Encode(s, mode, log) == EncodeAt(s, 1, mode, <<>>, log)

-----------------------------------------------------------------------------
(* 15.1.3 Decode(string, reservedSet) *)
LeadN(B) ==          \* 4.d.vii.1: smallest n with ((B << n) & 0x80) = 0
    IF B < 192 THEN 1 ELSE IF B < 224 THEN 2 ELSE IF B < 240 THEN 3 ELSE IF B < 248 THEN 4
    ELSE IF B < 252 THEN 5 ELSE IF B < 254 THEN 6 ELSE IF B < 255 THEN 7 ELSE 8

HexPairAt(s, p) == p + 1 <= Len(s) /\ IsHexDigit(s[p]) /\ IsHexDigit(s[p + 1])
HexPairVal(s, p) == HexVal(s[p]) * 16 + HexVal(s[p + 1])

(* 4.d.vii.7: the n - 1 continuation escapes after position k (the last hex  *)
(* digit of the first escape); [ok, oct]                                     *)
RECURSIVE ContOctets(_, _, _, _)
ContOctets(s, k, left, oct) ==
    IF left = 0 THEN [ok |-> TRUE, oct |-> oct]
    ELSE IF s[k + 1] # 37 THEN [ok |-> FALSE]                                \* 7.b
    ELSE IF ~HexPairAt(s, k + 2) THEN [ok |-> FALSE]                         \* 7.c
    ELSE LET B == HexPairVal(s, k + 2)
         IN  IF B < 128 \/ B >= 192 THEN [ok |-> FALSE]                      \* 7.e
             ELSE ContOctets(s, k + 3, left - 1, Append(oct, B))

(* 4.d.vii.8 and the paragraph after Table 21: the octets must be a valid    *)
(* UTF-8 encoding of a code point: shortest form, not a surrogate, at most   *)
(* 10FFFF.  -1 = invalid.                                                    *)
Utf8Value(o) ==
    LET n == Len(o)
        V == CASE n = 2 -> (o[1] - 192) * 64 + (o[2] - 128)
               [] n = 3 -> (o[1] - 224) * 4096 + (o[2] - 128) * 64 + (o[3] - 128)
               [] n = 4 -> (o[1] - 240) * 262144 + (o[2] - 128) * 4096 + (o[3] - 128) * 64 + (o[4] - 128)
        okv == CASE n = 2 -> V >= 128
                 [] n = 3 -> V >= 2048 /\ ~(V >= 55296 /\ V <= 57343)
                 [] n = 4 -> V >= 65536 /\ V <= 1114111
    IN  IF okv THEN V ELSE -1

RECURSIVE DecodeAt(_, _, _, _, _)
DecodeAt(s, k, mode, acc, log) ==
    IF Len(acc) < 0 THEN UErr(log)
    ELSE IF k > Len(s) THEN UOk(acc, log)                                    \* 4.a
    ELSE IF s[k] # 37 THEN DecodeAt(s, k + 1, mode, Append(acc, s[k]), log)  \* 4.c
    ELSE IF k + 2 > Len(s) THEN UErr(log)                                    \* 4.d.ii
    ELSE IF ~HexPairAt(s, k + 1) THEN UErr(log)                              \* 4.d.iii
    ELSE LET B  == HexPairVal(s, k + 1)
             k2 == k + 2                                                     \* 4.d.v
         IN  IF B < 128                                                      \* 4.d.vi
             THEN DecodeAt(s, k2 + 1, mode, acc \o (IF DecReserved(mode, B) THEN SubSeq(s, k, k2) ELSE <<B>>), log)
             ELSE LET n == LeadN(B)
                  IN  IF n = 1 \/ n > 4 THEN UErr(log)                       \* 4.d.vii.2
                      ELSE IF k2 + 3 * (n - 1) > Len(s) THEN UErr(log)       \* 4.d.vii.5
                      ELSE LET c == ContOctets(s, k2, n - 1, <<B>>)
                               ke == k2 + 3 * (n - 1)
                           IN  IF ~c.ok THEN UErr(log)
                               ELSE LET V == Utf8Value(c.oct)
                                    IN  IF V < 0 THEN UErr(log)              \* 4.d.vii.8
                                        ELSE IF V < 65536                    \* 4.d.vii.9
                                        THEN DecodeAt(s, ke + 1, mode,
                                                 acc \o (IF DecReserved(mode, V) THEN SubSeq(s, k, ke) ELSE <<V>>), log)
                                        ELSE DecodeAt(s, ke + 1, mode,       \* 4.d.vii.10
                                                 acc \o <<((V - 65536) \div 1024) + 55296, ((V - 65536) % 1024) + 56320>>, log)

Decode(s, mode, log) == DecodeAt(s, 1, mode, <<>>, log)

-----------------------------------------------------------------------------
(* B.2.1 escape *)
EscapeSafe == {64, 42, 95, 43, 45, 46, 47}                                  \* @ * _ + - . /
EscUnit(u) ==       \* steps 8-11
    IF u < 256 THEN PctByte(u)
    ELSE <<37, 117, HexUp(u \div 4096), HexUp((u \div 256) % 16), HexUp((u \div 16) % 16), HexUp(u % 16)>>

RECURSIVE EscapeAt(_, _, _)
EscapeAt(s, k, acc) ==
    IF Len(acc) < 0 THEN acc
    ELSE IF k > Len(s) THEN acc
    ELSE LET u == s[k]
         IN  IF IsAlphaU(u) \/ IsDigit(u) \/ u \in EscapeSafe THEN       \* step 7
                 (IF u = 64 /\ D("D15a_escape_at_sign") THEN EscapeAt(s, k + 1, acc \o PctByte(u))
                  ELSE EscapeAt(s, k + 1, Append(acc, u)))
             ELSE IF D("D15b_escape_astral_half") /\ IsHiSur(u) /\ k < Len(s) /\ IsLoSur(s[k + 1])
                  THEN EscapeAt(s, k + 2, acc \o EscUnit(u))                 \* otto: one rune, first unit only
             ELSE EscapeAt(s, k + 1, acc \o EscUnit(u))

(* B.2.2 unescape; k is 1-based, so "k > Result(2) - 6" reads k + 5 > Len    *)
AllHexIn(s, a, b) == \A i \in a..b : IsHexDigit(s[i])
Hex4(s, p) == HexVal(s[p]) * 4096 + HexVal(s[p + 1]) * 256 + HexVal(s[p + 2]) * 16 + HexVal(s[p + 3])

RECURSIVE UnescapeAt(_, _, _)
UnescapeAt(s, k, acc) ==
    IF Len(acc) < 0 THEN acc
    ELSE IF k > Len(s) THEN acc
    ELSE LET c == s[k]
         IN  IF c = 37 /\ k + 5 <= Len(s) /\ s[k + 1] = 117 /\ AllHexIn(s, k + 2, k + 5)          \* steps 10-13, 16-17
             THEN LET u == Hex4(s, k + 2)
                  IN  UnescapeAt(s, k + 6, Append(acc, IF D("D13_unescape_surrogate_fffd") /\ (IsHiSur(u) \/ IsLoSur(u)) THEN 65533 ELSE u))
             ELSE IF c = 37 /\ k + 2 <= Len(s) /\ AllHexIn(s, k + 1, k + 2)                        \* steps 14-15
             THEN UnescapeAt(s, k + 3, Append(acc, HexPairVal(s, k + 1)))
             ELSE IF D("D15c_unescape_utf8_bytes") /\ c >= 128                                     \* otto walks the UTF-8 bytes
             THEN (IF IsHiSur(c) /\ k < Len(s) /\ IsLoSur(s[k + 1])
                   THEN UnescapeAt(s, k + 2, acc \o UTF8(PairCP(c, s[k + 1])))
                   ELSE UnescapeAt(s, k + 1, acc \o UTF8(c)))
             ELSE UnescapeAt(s, k + 1, Append(acc, c))                                             \* step 18

-----------------------------------------------------------------------------
(* the six global functions applied to an argument list (missing argument =  *)
(* undefined); step 1 of each is ToString(argument)                          *)
UriFns == {"encodeURI", "encodeURIComponent", "decodeURI", "decodeURIComponent", "escape", "unescape"}

CallUri(f, args, src, log) ==
    LET a  == IF Len(args) = 0 THEN Undef ELSE args[1]
        ts == ToStringV(a, log)
    IN  IF ts.thr # "" THEN ts
        ELSE LET s == InStr(ts.v.s, f, src)
             IN  CASE f = "encodeURI" -> Encode(s, "uri", ts.log)                       \* 15.1.3.3
                   [] f = "encodeURIComponent" -> Encode(s, "comp", ts.log)             \* 15.1.3.4
                   [] f = "decodeURI" -> Decode(s, "uri", ts.log)                       \* 15.1.3.1
                   [] f = "decodeURIComponent" -> Decode(s, "comp", ts.log)             \* 15.1.3.2
                   [] f = "escape" -> UOk(EscapeAt(s, 1, <<>>), ts.log)                 \* B.2.1
                   [] f = "unescape" -> (LET u == UnescapeAt(s, 1, <<>>)                  \* B.2.2
                                         IN  UOk(IF D("D27_lone_surrogate_fffd") THEN Sanitize(u, 1) ELSE u, ts.log))   \* the result is a string value too

(* g(f(s)): the round trips of the property statement *)
CallUri2(g, f, args, src, log) ==
    LET r == CallUri(f, args, src, log)
    IN  IF r.thr # "" THEN r ELSE CallUri(g, <<r.v>>, "lit", r.log)

(* a string is well formed when every surrogate is part of a pair *)
WellFormed(s) == Sanitize(s, 1) = s
=============================================================================
