-------------------------------- MODULE C19 ---------------------------------
(* Judge for property C19 (errors: class, message, source position).          *)
(* Every line of trace.ndjson is a case made and run by the harness:          *)
(*   kind "run":    [id, prog, files, tlimit, named, obs]                     *)
(*       prog   a program as an abstract syntax tree whose nodes carry the     *)
(*              offset ("pos") at which the harness's renderer put them,       *)
(*       files  the source texts as code units (1 = the program, k = the text *)
(*              of the eval node with file = k),                              *)
(*       tlimit the value given to SetStackTraceLimit,                        *)
(*       named  the program was compiled under a file name (else Run(text)),  *)
(*       obs    [log, v, err] observed on the implementation: host calls,      *)
(*              completion value, and for an error returned by Run its text,   *)
(*              whether it is an *otto.Error, and the frames parsed from       *)
(*              Error.String() as [fn, nat, src, line, col].                  *)
(*   kind "syntax": [id, text, off, obs |-> [line, col]]                       *)
(*       text a source that does not parse, off the offset of the offending    *)
(*       token, obs the position of the first error the parser reports.        *)
(* The specification (ErrSpec over ES5Core) computes the required outcome;     *)
(* a line that differs is printed with it (status "strict") and judged again   *)
(* under the named deviations OpenDev: "dev" they explain the observation,     *)
(* "bad" they do not.                                                          *)
EXTENDS Integers, Sequences, TLC, Json
CONSTANTS OpenDev, Fuel
VARIABLES blk, i, ph

(* ONE instance of the specification (TLC's start-up cost grows with every instance of  *)
(* the evaluator): phase 0 judges a case strictly (Dev = {}); only a case the strict     *)
(* specification rejects goes on to phase 1, where the same operators are evaluated      *)
(* with Dev = the open findings.                                                        *)
E == INSTANCE ErrSpec WITH Dev <- (IF ph = 1 THEN OpenDev ELSE {})

File == ndJsonDeserialize("trace.ndjson")
K == 64

Required(ev) == IF ev.kind = "run" THEN E!RunCase(ev.prog, ev.files, ev.tlimit, ev.named, Fuel)
                ELSE E!SyntaxPos(ev.text, ev.off)
Accepts(o, ev) == IF ev.kind = "run" THEN E!Conforms(o, ev.obs) ELSE o = ev.obs
Und(o, ev) == ev.kind = "run" /\ o.und

(* One textual use of the specification for both phases, as a state CONSTRAINT (TLC's     *)
(* start-up analysis walks every call path into the evaluator, twice for paths from the   *)
(* next-state action).  Phase 0: prints "und" or, when the strict specification rejects  *)
(* the observation, its requirement ("strict"); the state is kept (TRUE), and so gets    *)
(* its phase-1 successor, iff the case must be judged again.  Phase 1: prints the        *)
(* verdict: "dev" the observation is what the named deviations produce, "bad" it is not. *)
Judge ==
    i = 0 \/
    LET ev == File[i]
        o == Required(ev)
    IN  IF ph = 0 THEN
            (IF Und(o, ev) THEN PrintT("VJSON " \o ToJson([id |-> ev.id, status |-> "und"])) /\ FALSE
             ELSE IF Accepts(o, ev) THEN FALSE
             ELSE PrintT("VJSON " \o ToJson([id |-> ev.id, status |-> "strict", want |-> o])))
        ELSE PrintT("VJSON " \o ToJson([id |-> ev.id, status |-> IF ~Und(o, ev) /\ Accepts(o, ev) THEN "dev" ELSE "bad", dev |-> <<o>>]))

Init == blk \in 1..K /\ i = 0 /\ ph = 0
Next == \/ i = 0 /\ i' \in {j \in 1..Len(File) : j % K = blk - 1} /\ UNCHANGED <<blk, ph>>
        \/ i # 0 /\ ph = 0 /\ ph' = 1 /\ UNCHANGED <<blk, i>>
=============================================================================
