-------------------------------- MODULE C19 ---------------------------------
(* Judge for property C19 (errors: class, message, source position).          *)
(* Every line of trace.ndjson is a case made and run by the harness:          *)
(*   kind "run":    [id, prog, files, tlimit, named, obs]                     *)
(*       prog   a program as an abstract syntax tree whose nodes carry the     *)
(*              offset ("pos") at which the harness's renderer put them,       *)
(*       files  the source texts as code units (1 = the program, k = the text *)
(*              of the eval node with file = k),                              *)
(*       tlimit the value given to SetStackTraceLimit,                        *)
(*       named  the program was compiled under a file name (else Run(text)),  *)
(*       obs    [log, v, err] observed on the implementation: host calls,      *)
(*              completion value, and for an error returned by Run its text,   *)
(*              whether it is an *otto.Error, and the frames parsed from       *)
(*              Error.String() as [fn, nat, src, line, col].                  *)
(*   kind "syntax": [id, text, off, obs |-> [line, col]]                       *)
(*       text a source that does not parse, off the offset of the offending    *)
(*       token, obs the position of the first error the parser reports.        *)
(* The specification (ErrSpec over ES5Core) computes the required outcome;     *)
(* lines that differ are printed with it, and with the outcome under the       *)
(* named deviations OpenDev when that explains the observation.               *)
EXTENDS Integers, Sequences, TLC, Json
CONSTANTS OpenDev, Fuel
VARIABLES blk, i

S == INSTANCE ErrSpec WITH Dev <- {}
L == INSTANCE ErrSpec WITH Dev <- OpenDev

File == ndJsonDeserialize("trace.ndjson")
K == 64
Init == blk \in 1..K /\ i = 0
Next == i = 0 /\ i' \in {j \in 1..Len(File) : j % K = blk - 1} /\ UNCHANGED blk

JudgeRun(ev) ==
    LET so == S!RunCase(ev.prog, ev.files, ev.tlimit, ev.named, Fuel)
    IN  IF so.und THEN PrintT("VJSON " \o ToJson([id |-> ev.id, status |-> "und"]))
        ELSE IF S!Conforms(so, ev.obs) THEN TRUE
        ELSE LET lo == IF OpenDev = {} THEN so ELSE L!RunCase(ev.prog, ev.files, ev.tlimit, ev.named, Fuel)
             IN  PrintT("VJSON " \o ToJson([id |-> ev.id, status |-> IF ~lo.und /\ L!Conforms(lo, ev.obs) THEN "dev" ELSE "bad",
                                             want |-> so, dev |-> IF lo = so THEN <<>> ELSE <<lo>>]))

JudgeSyntax(ev) ==
    LET sp == S!SyntaxPos(ev.text, ev.off)
    IN  IF sp = ev.obs THEN TRUE
        ELSE LET lp == L!SyntaxPos(ev.text, ev.off)
             IN  PrintT("VJSON " \o ToJson([id |-> ev.id, status |-> IF lp = ev.obs THEN "dev" ELSE "bad",
                                             want |-> sp, dev |-> IF lp = sp THEN <<>> ELSE <<lp>>]))

Check ==
    i = 0 \/ (LET ev == File[i] IN IF ev.kind = "run" THEN JudgeRun(ev) ELSE JudgeSyntax(ev))
=============================================================================
