-------------------------------- MODULE C10H --------------------------------
(* Property C10 (part b): the lastIndex protocol as a state machine.  One    *)
(* RegExp object (pattern and flags chosen in Init), its state is the value  *)
(* of the writable lastIndex property; the actions are the calls that read   *)
(* or write it:                                                              *)
(*   r.exec(s)  r.test(s)  s.match(r)  s.replace(r, x)  s.search(r)          *)
(*   s.split(r, lim)  r.lastIndex = v                                        *)
(* Every transition (history of at most MaxLen calls; the history is hidden  *)
(* by VIEW so that each (object state, call) pair is printed once, with a    *)
(* shortest path to the state) is printed with the result and the lastIndex  *)
(* value spec/RegExpSpec.tla prescribes and replayed on a fresh runtime.     *)
EXTENDS NumText, Json, TLC, SequencesExt, C10Str
CONSTANTS OpenDev, C10Dev, Tier, MaxLen
VARIABLES pat, li, hist

S == INSTANCE RegExpSpec WITH Dev <- {}
L == INSTANCE RegExpSpec WITH Dev <- OpenDev
LI(dv) == INSTANCE RegExpSpec WITH Dev <- dv       \* the specification under an arbitrary set of deviations
Thorough == Tier = "thorough"

(* <<source, flags>> *)
PatsQ == <<
    <<<<97>>, <<103>>>>,                                   \* /a/g
    <<<<97>>, <<>>>>,                                      \* /a/
    <<<<97, 42>>, <<103>>>>,                               \* /a*/g     (empty matches)
    <<<<94, 97>>, <<103>>>>,                               \* /^a/g
    <<<<92, 98, 97>>, <<103>>>>,                           \* /\ba/g
    <<<<40, 97, 41, 124, 40, 98, 41>>, <<103>>>>,          \* /(a)|(b)/g
    <<<<97, 36>>, <<103, 109>>>>,                          \* /a$/gm
    <<<<40, 63, 58, 41>>, <<103>>>>,                       \* /(?:)/g
    <<<<98>>, <<103, 105>>>>,                              \* /b/gi
    <<<<46>>, <<103>>>> >>                                 \* /./g
PatsT == PatsQ \o <<
    <<<<97, 124>>, <<103>>>>,                              \* /a|/g
    <<<<40, 97, 43, 41, 40, 98, 63, 41>>, <<103>>>>,       \* /(a+)(b?)/g
    <<<<92, 66>>, <<103>>>>,                               \* /\B/g
    <<<<36>>, <<103>>>>,                                   \* /$/g
    <<<<94>>, <<103, 109>>>>,                              \* /^/gm
    <<<<91, 94, 97, 93>>, <<>>>>,                          \* /[^a]/
    <<<<97, 42, 63>>, <<103>>>>,                           \* /a*?/g
    <<<<40, 98, 41, 42>>, <<103>>>> >>                     \* /(b)*/g
Pats == IF Thorough THEN PatsT ELSE PatsQ

SubjQ == <<<<>>, <<97>>, <<97, 97>>, <<98, 97>>, <<97, 98, 97>>, <<97, 10, 97>>, <<233, 97>>>>    \* "", a, aa, ba, aba, a LF a, e-acute a
SubjT == SubjQ \o <<<<98>>, <<66, 97, 98>>, <<97, 97, 97>>, <<10, 97>>>>
Subj == IF Thorough THEN SubjT ELSE SubjQ

Half5 == NumV(Canon(FALSE, <<5>>, -1))                     \* 2.5
LiVals == {IntV(0), IntV(1), IntV(2), Half5, IntV(-1), IntV(99), StrV(<<49>>)} \cup
          (IF Thorough THEN {NumV(NaN), NumV(PInf), Undef, Null, BoolV(TRUE), NumV(NZero), StrV(<<120>>), IntV(3)} ELSE {})
Repls == IF Thorough THEN {<<120>>, <<91, 36, 38, 93>>, <<>>} ELSE {<<120>>}
Lims == IF Thorough THEN {Undef, IntV(0), IntV(2)} ELSE {Undef, IntV(2)}

Actions ==
    {[op |-> o, s |-> Subj[i]] : o \in {"exec", "test", "match", "search"}, i \in 1..Len(Subj)}
    \cup {[op |-> "replace", s |-> Subj[i], rep |-> x] : i \in 1..Len(Subj), x \in Repls}
    \cup {[op |-> "split", s |-> Subj[i], lim |-> l] : i \in 1..Len(Subj), l \in Lims}
    \cup {[op |-> "setli", v |-> v] : v \in LiVals}

Obj(d, p, l) == [(IF d THEN L!RxNew(Pats[p][1], Pats[p][2]) ELSE S!RxNew(Pats[p][1], Pats[p][2])) EXCEPT !.li = l]

(* one call: [R |-> object after, v |-> result] *)
Apply(d, X, a) ==
    CASE a.op = "exec" -> (LET x == IF d THEN L!RxExec(X, a.s) ELSE S!RxExec(X, a.s) IN [R |-> x.R, v |-> x.v])
      [] a.op = "test" -> IF d THEN L!RxTest(X, a.s) ELSE S!RxTest(X, a.s)
      [] a.op = "match" -> IF d THEN L!RxStrMatch(X, a.s) ELSE S!RxStrMatch(X, a.s)
      [] a.op = "search" -> IF d THEN L!RxStrSearch(X, a.s) ELSE S!RxStrSearch(X, a.s)
      [] a.op = "replace" -> (LET x == IF d THEN L!RxStrReplace(X, a.s, [k |-> "str", s |-> a.rep]) ELSE S!RxStrReplace(X, a.s, [k |-> "str", s |-> a.rep])
                              IN  [R |-> x.R, v |-> x.v.a[1]])
      [] a.op = "split" -> IF d THEN L!RxStrSplit(X, a.s, a.lim) ELSE S!RxStrSplit(X, a.s, a.lim)
      [] a.op = "setli" -> IF d THEN L!RxSetLastIndex(X, a.v) ELSE S!RxSetLastIndex(X, a.v)

(* the same under an arbitrary set dv of deviations *)
ApplyV(dv, X, a) ==
    CASE a.op = "exec" -> (LET x == LI(dv)!RxExec(X, a.s) IN [R |-> x.R, v |-> x.v])
      [] a.op = "test" -> LI(dv)!RxTest(X, a.s)
      [] a.op = "match" -> LI(dv)!RxStrMatch(X, a.s)
      [] a.op = "search" -> LI(dv)!RxStrSearch(X, a.s)
      [] a.op = "replace" -> (LET x == LI(dv)!RxStrReplace(X, a.s, [k |-> "str", s |-> a.rep]) IN [R |-> x.R, v |-> x.v.a[1]])
      [] a.op = "split" -> LI(dv)!RxStrSplit(X, a.s, a.lim)
      [] a.op = "setli" -> LI(dv)!RxSetLastIndex(X, a.v)
RECURSIVE AfterV(_, _, _, _)
AfterV(dv, X, h, i) == IF i > Len(h) THEN X ELSE AfterV(dv, ApplyV(dv, X, h[i]).R, h, i + 1)

(* the object after a history, under the deviations (the path may already diverge) *)
RECURSIVE DevAfter(_, _, _)
DevAfter(X, h, i) == IF i > Len(h) THEN X ELSE DevAfter(Apply(TRUE, X, h[i]).R, h, i + 1)

Lit(v) == [lit |-> v]
OpJs(a) ==
    CASE a.op = "exec" -> <<"r.exec(", Lit(StrV(a.s)), ")">>
      [] a.op = "test" -> <<"r.test(", Lit(StrV(a.s)), ")">>
      [] a.op = "match" -> <<Lit(StrV(a.s)), ".match(r)">>
      [] a.op = "search" -> <<Lit(StrV(a.s)), ".search(r)">>
      [] a.op = "replace" -> <<Lit(StrV(a.s)), ".replace(r, ", Lit(StrV(a.rep)), ")">>
      [] a.op = "split" -> IF a.lim.t = "undef" THEN <<Lit(StrV(a.s)), ".split(r)">> ELSE <<Lit(StrV(a.s)), ".split(r, ", Lit(a.lim), ")">>
      [] a.op = "setli" -> <<"(r.lastIndex = ", Lit(a.v), ")">>
RECURSIVE PathJs(_, _)
PathJs(h, i) == IF i > Len(h) THEN <<>> ELSE OpJs(h[i]) \o <<"; ">> \o PathJs(h, i + 1)
Js(p, h, a) ==
    <<"G(function(){ var r = new RegExp(", Lit(StrV(Pats[p][1])), ",", Lit(StrV(Pats[p][2])), "); ">> \o PathJs(h, 1) \o <<"var x = ">> \o OpJs(a)
    \o <<"; return [x, r.lastIndex]; })">>

Out(r) == [thr |-> "", v |-> [t |-> "arr", a |-> <<r.v, r.R.li>>], log |-> <<>>]

Init == pat \in 1..Len(Pats) /\ li = IntV(0) /\ hist = <<>>
Step(a) ==
    LET rs == Apply(FALSE, Obj(FALSE, pat, li), a)
        rd == Apply(TRUE, DevAfter(Obj(TRUE, pat, IntV(0)), hist, 1), a)
        es == Out(rs)
        ed == Out(rd)
        \* A repair may be in the tree while its finding is still listed as open: the outcome under "all open
        \* deviations but one" is accepted too (the whole history is re-evaluated under each such set).  Only
        \* computed where the deviations matter at all (ed # es).
        alts == ({ed} \cup {Out(ApplyV(OpenDev \ {x}, AfterV(OpenDev \ {x}, [LI({})!RxNew(Pats[pat][1], Pats[pat][2]) EXCEPT !.li = IntV(0)], hist, 1), a)) :
                               x \in C10Dev}) \ {es}
    IN  /\ li' = rs.R.li
        /\ hist' = Append(hist, a)
        /\ UNCHANGED pat
        /\ PrintT("VJSON " \o ToJson([c |-> [pat |-> pat, path |-> hist, step |-> a], js |-> Js(pat, hist, a), exp |-> es,
                                        dev |-> IF ed = es THEN <<>> ELSE IF Cardinality(alts) = 1 THEN <<ed>>
                                                ELSE <<[t |-> "anyof", alts |-> SetToSeq(alts)]>>]))
Next == Len(hist) < MaxLen /\ \E a \in Actions : Step(a)
View == <<pat, li>>
vars == <<pat, li, hist>>

(* guarantees of the protocol, checked on the model by TLC *)
LastIndexShape ==         \* calls leave an integer in lastIndex unless the script stored something else
    li.t = "num" \/ (Len(hist) > 0 /\ hist[Len(hist)].op \in {"setli", "search", "split", "replace"}) \/ \E i \in 1..Len(hist) : hist[i].op = "setli"
NonGlobalNeverAdvances == \* a non-global expression never stores a non-zero lastIndex by itself
    [][(~S!RxFlags(Pats[pat][2]).g /\ hist'[Len(hist')].op # "setli") => (li' = li \/ li' = IntV(0))]_vars
SearchSplitLeaveState ==  \* 15.5.4.12 / 15.5.4.14: lastIndex unchanged
    [][hist'[Len(hist')].op \in {"search", "split"} => li' = li]_vars
=============================================================================
