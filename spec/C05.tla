-------------------------------- MODULE C05 ---------------------------------
(* Generator for property C05: every operator of clause 11 and every         *)
(* conversion of clause 9 on a dense boundary set of values.  Each state is  *)
(* one case; the invariant Emit prints the JavaScript text of the case (as   *)
(* parts: verbatim strings and values) together with the result ES5          *)
(* prescribes, including the log of scripted valueOf/toString/H() calls.     *)
EXTENDS NumText, Json, TLC, SequencesExt, Randomization
CONSTANTS OpenDev, Fam, NSel
VARIABLES blk, cs

S == INSTANCE Ops WITH Dev <- {}
L == INSTANCE Ops WITH Dev <- OpenDev

Pow2(k) == Canon(FALSE, <<1>>, k)
NumsPos == {I(1), Canon(FALSE, <<1>>, -1), Canon(FALSE, <<3>>, -1), I(2), I(3), I(10), I(255),
            NumSub(Pow2(31), I(1)), Pow2(31), NumAdd(Pow2(31), I(1)),
            NumSub(Pow2(32), I(1)), Pow2(32), NumAdd(Pow2(32), I(1)),
            NumSub(Pow2(53), I(1)), Pow2(53), NumAdd(Pow2(53), I(2)), Pow2(63), Pow2(64),
            DecToNum(FALSE, <<1>>, 21),
            DecToNum(FALSE, <<1>>, -7), DecToNum(FALSE, BnFromInt(123456), -3),
            NumAdd(NumSub(Pow2(32), I(1)), Canon(FALSE, <<1>>, -1))}
Nums == {NaN, I(0), NZero, PInf, NInf} \cup NumsPos \cup {NumNeg(x) : x \in NumsPos}

(* extreme magnitudes: used with the arithmetic and comparison operators only *)
(* (their decimal strings belong to property C06)                            *)
Extremes == {Canon(FALSE, <<1>>, -1074), Canon(FALSE, BnSub(BnShl(<<1>>, 53), <<1>>), 971),
             Canon(TRUE, BnSub(BnShl(<<1>>, 53), <<1>>), 971), Canon(FALSE, <<1>>, -1022), Canon(FALSE, <<1>>, 1023)}

Strs == {TestStrings[i] : i \in 1..Len(TestStrings)}
(* long hexadecimal strings (9.3.1: the MV of a HexIntegerLiteral of any length, rounded once) *)
LongStrs == {StrV(TestStringsLong[i]) : i \in 1..Len(TestStringsLong)}
LongStrsBin == {v \in LongStrs : Len(v.s) < 100}      \* the 259-unit string: conversions and unary operators only

RetP(v) == [k |-> "ret", v |-> v]
Objs == {[t |-> "cobj", id |-> 1, vo |-> RetP(IntV(7)), ts |-> RetP(StrV(<<55>>))],
         [t |-> "cobj", id |-> 2, vo |-> [k |-> "inherit"], ts |-> [k |-> "inherit"]],
         [t |-> "cobj", id |-> 3, vo |-> [k |-> "retobj"], ts |-> RetP(StrV(<<50, 48>>))],
         [t |-> "cobj", id |-> 4, vo |-> [k |-> "retobj"], ts |-> [k |-> "retobj"]],
         [t |-> "cobj", id |-> 5, vo |-> [k |-> "throw"], ts |-> RetP(StrV(<<120>>))],
         [t |-> "cobj", id |-> 6, vo |-> RetP(StrV(<<49, 48>>)), ts |-> [k |-> "throw"]],
         [t |-> "cobj", id |-> 7, vo |-> [k |-> "noncallable"], ts |-> RetP(BoolV(TRUE))],
         [t |-> "cobj", id |-> 8, vo |-> RetP(Null), ts |-> RetP(Undef)],
         \* Date objects (id >= 50): no hint means hint String
         [t |-> "cobj", id |-> 51, vo |-> RetP(IntV(3)), ts |-> RetP(StrV(<<50, 48>>))],
         [t |-> "cobj", id |-> 52, vo |-> RetP(IntV(4)), ts |-> [k |-> "retobj"]],
         [t |-> "cobj", id |-> 53, vo |-> RetP(StrV(<<49, 48>>)), ts |-> [k |-> "throw"]]}
Fns == {[t |-> "fn", name |-> "Object"], [t |-> "fn", name |-> "Function"]}

Vals == {Undef, Null, BoolV(TRUE), BoolV(FALSE)} \cup {NumV(n) : n \in Nums} \cup {StrV(s) : s \in Strs} \cup Objs

BinOps == {"+", "-", "*", "/", "%", "&", "|", "^", "<<", ">>", ">>>", "<", ">", "<=", ">=",
           "==", "!=", "===", "!==", "in", "instanceof"}
UnOps == {"+", "-", "~", "!", "typeof", "void"}
Convs == {"Number", "String", "Boolean", "ToInt32", "ToUint32", "ToUint16"}

(* family "rep": the same Number in different INTERNAL representations.  An implementation may keep the  *)
(* result of a bitwise operator as a 32-bit integer, and a number that the embedding program handed over  *)
(* (Otto.Set) as the Go integer or float kind it came in; clauses 9 and 11 see only the Number value.  A   *)
(* carrier is an expression around the literal (or0, shr0) or a Go kind through which the harness injects *)
(* the value ([t |-> "gonum"]); the value the operator must see is the double of the same magnitude.       *)
RepNums == <<I(0), I(1), I(-1), I(7), I(-7), I(127), I(-128), I(255), I(32767), I(-32768), I(65535),
             NumSub(Pow2(31), I(1)), NumNeg(Pow2(31)), Pow2(31), NumSub(Pow2(32), I(1)), Pow2(32),
             NumSub(Pow2(53), I(1)), Pow2(53), NumAdd(Pow2(53), I(2)), NumNeg(NumAdd(Pow2(53), I(2))), Pow2(57), NumAdd(Pow2(57), Pow2(10)), Pow2(60), NumNeg(Pow2(60)),
             NumSub(Pow2(63), Pow2(10)), NumNeg(Pow2(63)), Pow2(63), NumSub(Pow2(64), Pow2(11)),
             DecToNum(FALSE, <<1>>, 18), DecToNum(FALSE, <<1>>, 19), Canon(FALSE, <<3>>, -1), Canon(TRUE, <<1>>, -1)>>
KindLo(k) == CASE k = "int8" -> NumNeg(Pow2(7)) [] k = "int16" -> NumNeg(Pow2(15)) [] k \in {"int32", "or0"} -> NumNeg(Pow2(31))
               [] k \in {"int", "int64"} -> NumNeg(Pow2(63)) [] OTHER -> I(0)
KindHi(k) == CASE k = "int8" -> I(127) [] k = "int16" -> I(32767) [] k \in {"int32", "or0"} -> NumSub(Pow2(31), I(1))
               [] k \in {"int", "int64"} -> NumSub(Pow2(63), Pow2(10)) [] k = "uint8" -> I(255) [] k = "uint16" -> I(65535)
               [] k \in {"uint32", "shr0"} -> NumSub(Pow2(32), I(1)) [] k \in {"uint", "uint64"} -> NumSub(Pow2(64), Pow2(11))
GoIntKinds == {"int", "int8", "int16", "int32", "int64", "uint", "uint8", "uint16", "uint32", "uint64"}
Carriers == GoIntKinds \cup {"or0", "shr0", "float64", "float32"}
Fits(k, n) ==
    CASE k = "float64" -> TRUE
      [] k = "float32" -> n \in {I(0), I(1), I(-1), I(7), I(255), I(65535), Pow2(31), Pow2(32), NumNeg(Pow2(31)), Pow2(60), Pow2(63), Canon(FALSE, <<3>>, -1), Canon(TRUE, <<1>>, -1)}
      [] OTHER -> IsInteger(n) /\ NumCmp(KindLo(k), n) <= 0 /\ NumCmp(n, KindHi(k)) <= 0
RepVals == {r \in {[car |-> k, n |-> RepNums[i]] : k \in Carriers, i \in 1..Len(RepNums)} : Fits(r.car, r.n)}
RepCases ==
    {[fam |-> "repun", op |-> op, car |-> r.car, a |-> NumV(r.n)] : op \in UnOps, r \in RepVals}
    \cup {[fam |-> "repconv", f |-> f, car |-> r.car, a |-> NumV(r.n)] : f \in Convs, r \in RepVals}
    \cup {[fam |-> "repbin", op |-> op, car |-> r.car, a |-> NumV(r.n), b |-> b, swap |-> sw] :
             op \in {"+", "*", "%", "==", "===", "<", ">=", "|", ">>>"}, r \in RepVals,
             b \in {IntV(1), StrV(<<>>), StrV(<<49>>), Undef}, sw \in BOOLEAN}
    \cup {[fam |-> "repbin", op |-> op, car |-> r.car, a |-> NumV(r.n), b |-> NumV(r.n), swap |-> sw] :
             op \in {"+", "*", "%", "==", "===", "<", ">=", "|", ">>>"}, r \in RepVals, sw \in BOOLEAN}

(* family "upd": 11.3.1 / 11.3.2 postfix and 11.4.4 / 11.4.5 prefix increment and decrement on operands of EVERY   *)
(* type (all of Vals: numbers incl. NaN, signed zeros, 2^53 neighbours; numeric, hex, padded and malformed strings;  *)
(* booleans, null, undefined; the scripted conversion objects; the long hex strings), the reference being a          *)
(* variable, a named property or an array element.  oldValue = ToNumber(GetValue(lhs)) (one conversion, logged),    *)
(* newValue = oldValue +/- 1 by the rules of the + / - operator, PutValue(lhs, newValue); the value of the          *)
(* expression is oldValue - the NUMBER - for the postfix forms and newValue for the prefix forms.  Each cell is      *)
(* observed twice: obs = "res" the value of the expression, obs = "stored" the value read back from the reference.  *)
(* "repupd": the same on a Number held in every internal representation (family "rep"): the update must not wrap   *)
(* at the width of the carrier.                                                                                       *)
UpdOps == {"++", "--"}
UpdTgts == {"var", "prop", "elem", "gprop"}
UpdCases ==
    {[fam |-> "upd", op |-> op, post |-> po, tgt |-> tg, obs |-> ob, a |-> a] :
        op \in UpdOps, po \in BOOLEAN, tg \in UpdTgts, ob \in {"res", "stored"}, a \in Vals \cup LongStrs}
    \cup {[fam |-> "repupd", op |-> op, post |-> po, tgt |-> "var", obs |-> ob, car |-> r.car, a |-> NumV(r.n)] :
        op \in UpdOps, po \in BOOLEAN, ob \in {"res", "stored"}, r \in RepVals}
UpdExpect(Bin(_, _, _, _), Un(_, _, _), c) ==
    LET old == Un("+", c.a, <<>>)                                     \* ToNumber(oldValue), 11.3.1 step 3 / 11.4.4 step 3
    IN  IF old.thr # "" THEN old
        ELSE LET new == Bin(IF c.op = "++" THEN "+" ELSE "-", old.v, IntV(1), old.log)
             IN  IF c.obs = "res" /\ c.post THEN old ELSE new
UpdJs(c, init) ==
    LET ref == CASE c.tgt = "var" -> "x" [] c.tgt = "prop" -> "o.p" [] c.tgt = "elem" -> "o[0]" [] c.tgt = "gprop" -> "this.g"
        pre == CASE c.tgt = "var" -> <<"var x = ">> \o init \o <<"; ">>
                 [] c.tgt = "prop" -> <<"var o = {p: ">> \o init \o <<"}; ">>
                 [] c.tgt = "elem" -> <<"var o = [">> \o init \o <<"]; ">>
                 [] c.tgt = "gprop" -> <<"this.g = ">> \o init \o <<"; ">>
        e == IF c.post THEN ref \o c.op ELSE c.op \o ref
    IN  pre \o <<"var r = " \o e \o "; " \o (IF c.obs = "res" THEN "r" ELSE ref)>>

(* small families: an explicit set of cases *)
SmallCases ==
    RepCases \cup UpdCases \cup
    {[fam |-> "un", op |-> op, a |-> a] : op \in UnOps, a \in Vals}
    \cup {[fam |-> "un", op |-> op, a |-> a] : op \in {"!", "typeof", "void"}, a \in Fns}
    \cup {[fam |-> "conv", f |-> f, a |-> a] : f \in Convs, a \in Vals}
    \cup {[fam |-> "logic", op |-> op, a |-> a, b |-> b] : op \in {"&&", "||"}, a \in Vals, b \in {IntV(1), Undef}}
    \cup {[fam |-> "cond", a |-> a] : a \in Vals}
    \cup {[fam |-> "un", op |-> op, a |-> a] : op \in UnOps, a \in LongStrs}
    \cup {[fam |-> "conv", f |-> f, a |-> a] : f \in Convs, a \in LongStrs}
    \cup {[fam |-> "bin", op |-> op, a |-> a, b |-> b] : op \in BinOps \ {"in", "instanceof"}, a \in LongStrsBin,
             b \in LongStrsBin \cup {IntV(1), StrV(<<49, 48>>), BoolV(TRUE), NumV(Pow2(64)), Undef}}
    \cup {[fam |-> "bin", op |-> op, a |-> b, b |-> a] : op \in BinOps \ {"in", "instanceof"}, a \in LongStrsBin,
             b \in {IntV(1), StrV(<<49, 48>>), BoolV(TRUE), NumV(Pow2(64)), Undef}}
    \cup {[fam |-> "compound", op |-> op, a |-> a, b |-> b, c |-> c] :
             op \in {"+", "-", "*", "<<", "&"}, a \in {IntV(1), StrV(<<97>>)}, b \in {IntV(5)}, c \in {IntV(2), StrV(<<98>>)}}
    \cup {[fam |-> "bin", op |-> op, a |-> a, b |-> b] : op \in {"in", "instanceof", "===", "!=="}, a \in Vals \cup Fns, b \in Fns}
    \cup {[fam |-> "bin", op |-> "instanceof", a |-> a, b |-> b] : a \in Vals \cup Fns, b \in {[t |-> "fn", name |-> "FNP"], [t |-> "fn", name |-> "FBP"]}}
    \cup {[fam |-> f, op |-> op] : f \in {"order1", "order2"},
             op \in {"+", "-", "*", "/", "%", "<", ">", "<=", ">=", "==", "!=", "&", "|", "^", "<<", ">>", ">>>"}}
    \cup {[fam |-> "bin", op |-> op, a |-> NumV(a), b |-> NumV(b)] :
             op \in {"+", "-", "*", "/", "%", "<", "==", "===", ">>>", "|"}, a \in Extremes, b \in Nums \cup Extremes}
    \cup {[fam |-> "bin", op |-> op, a |-> NumV(b), b |-> NumV(a)] :
             op \in {"+", "-", "*", "/", "%", "<", "==", "===", ">>>", "|"}, a \in Extremes, b \in Nums}

(* the big family: every binary operator on every ordered pair of Vals,      *)
(* addressed by index so that the product set is never built                 *)
OpSeq  == SetToSeq(BinOps)
ValSeq == SetToSeq(Vals)

Lit(v) == [lit |-> v]
HLog(k) == "H" \o ToString(k)
(* a value delivered through a carrier *)
Car(car, v) == CASE car = "or0" -> <<"(", Lit(v), "|0)">> [] car = "shr0" -> <<"(", Lit(v), ">>>0)">>
                 [] OTHER -> <<Lit([t |-> "gonum", kind |-> car, n |-> v.n])>>

(* family "dv": 8.12.8 [[DefaultValue]] as a PROTOCOL on a mutable object.  The scripted conversion objects *)
(* of Ops are static; here the object O (base "obj": Object.create(P); base "date": new Date(0)) has its     *)
(* valueOf / toString as own or inherited, data or accessor properties (a getter logs "g<tag>" and may      *)
(* throw), the function found is called with O as this value (logs "c<tag>") and, WHILE IT RUNS, may         *)
(* reassign ([[Put]] 8.12.5), redefine (8.12.9, data or accessor), or delete the sibling method or itself,  *)
(* on O or on its prototype P.  8.12.8 is evaluated step by step on that state: [[Get]] of the first        *)
(* method, IsCallable, [[Call]], primitive?  and only then [[Get]] of the second method, on the state the   *)
(* first call left behind.  A case is written relative to the hint: "first"/"second" are toString/valueOf   *)
(* for hint String (and for a Date with no hint), valueOf/toString otherwise; the context (operator or     *)
(* conversion function, operand position) decides the hint, and the operator is then applied to the        *)
(* primitive by Ops.  Functions return a primitive that names them (valueOf kinds a number, toString kinds  *)
(* a digit string), so the value tells which function supplied it.                                          *)
DvAbsent == [k |-> "absent"]
DvData(f) == [k |-> "data", f |-> f]
DvAcc(f) == [k |-> "acc", f |-> f]
DvNoEff == [k |-> "none"]
DvFn(tag, ret, eff) == [k |-> "fn", tag |-> tag, ret |-> ret, eff |-> eff]
DvNc(tag) == [k |-> "nc", tag |-> tag]
DvGThrow(tag) == [k |-> "gthrow", tag |-> tag]
DvShort(nm) == IF nm = "vo" THEN "v" ELSE "t"
DvTag(on, nm) == (IF on = "own" THEN "o" ELSE "p") \o DvShort(nm)
DvNum(tag) == CASE tag \in {"ov"} -> 1 [] tag = "ot" -> 2 [] tag = "pv" -> 3 [] tag = "pt" -> 4
                [] tag = "nv" -> 5 [] tag = "nt" -> 6 [] OTHER -> 9
DvIsVo(tag) == tag \in {"ov", "pv", "nv", "xv"}
DvVal(tag) == IF DvIsVo(tag) THEN IntV(DvNum(tag)) ELSE StrV(<<48 + DvNum(tag)>>)
DvThrown(tag) == IntV(100 + DvNum(tag))       \* thrown by the function
DvGThrown(tag) == IntV(200 + DvNum(tag))      \* thrown by the getter
DvNew(nm) == DvFn("n" \o DvShort(nm), "prim", DvNoEff)

(* the effect number e of the first method's function (fi, se: the names of the first / second method) *)
DvEff(e, fi, se) ==
    CASE e = 0 -> DvNoEff
      [] e = 1 -> [k |-> "put", on |-> "own", nm |-> se, f |-> DvNew(se)]
      [] e = 2 -> [k |-> "def", on |-> "own", nm |-> se, slot |-> DvData(DvNew(se))]
      [] e = 3 -> [k |-> "def", on |-> "own", nm |-> se, slot |-> DvAcc(DvNew(se))]
      [] e = 4 -> [k |-> "put", on |-> "own", nm |-> se, f |-> DvNc("x" \o DvShort(se))]
      [] e = 5 -> [k |-> "put", on |-> "proto", nm |-> se, f |-> DvNew(se)]
      [] e = 6 -> [k |-> "del", on |-> "own", nm |-> se]
      [] e = 7 -> [k |-> "del", on |-> "proto", nm |-> se]
      [] e = 8 -> [k |-> "put", on |-> "own", nm |-> fi, f |-> DvNew(fi)]
DvEffs == 0..8

(* abstract configurations: where the first method lives and what it does; the second method on O and on P *)
DvFirstCfgs ==
    {[place |-> "none", acc |-> FALSE, beh |-> "builtin", eff |-> 0]}
    \cup {[place |-> p, acc |-> a, beh |-> b, eff |-> e] : p \in {"own", "proto"}, a \in BOOLEAN, b \in {"prim", "obj"}, e \in DvEffs}
    \cup {[place |-> p, acc |-> a, beh |-> b, eff |-> 0] : p \in {"own", "proto"}, a \in BOOLEAN, b \in {"throw", "nc"}}
    \cup {[place |-> p, acc |-> TRUE, beh |-> "gthrow", eff |-> 0] : p \in {"own", "proto"}}
DvSecondCfgs ==
    {[own |-> o, proto |-> p] :
        o \in {[acc |-> FALSE, beh |-> "absent"]}
              \cup {[acc |-> a, beh |-> b] : a \in BOOLEAN, b \in {"prim", "obj", "throw", "nc"}}
              \cup {[acc |-> TRUE, beh |-> "gthrow"]},
        p \in {"absent", "data", "acc"}}
DvFirstSeq == SetToSeq(DvFirstCfgs)
DvFirstDateSeq == SetToSeq({f \in DvFirstCfgs : f.place # "proto" /\ f.eff \notin {5, 7}})
DvSecondSeq == SetToSeq(DvSecondCfgs)
DvSecondDateSeq == SetToSeq({x \in DvSecondCfgs : x.proto = "absent"})
(* contexts: every place of clauses 9 and 11 that converts an object operand, in both operand positions *)
DvCtxSeq == <<[k |-> "un", op |-> "-"], [k |-> "un", op |-> "~"], [k |-> "conv", f |-> "Number"], [k |-> "conv", f |-> "ToUint16"],
              [k |-> "bin", op |-> "*", other |-> IntV(2), swap |-> FALSE], [k |-> "bin", op |-> "-", other |-> IntV(10), swap |-> TRUE],
              [k |-> "bin", op |-> "<", other |-> IntV(4), swap |-> FALSE], [k |-> "bin", op |-> ">=", other |-> StrV(<<51>>), swap |-> TRUE],
              [k |-> "bin", op |-> ">>>", other |-> IntV(0), swap |-> FALSE], [k |-> "bin", op |-> "&", other |-> IntV(7), swap |-> TRUE],
              [k |-> "bin", op |-> "+", other |-> IntV(1), swap |-> FALSE], [k |-> "bin", op |-> "+", other |-> StrV(<<115>>), swap |-> TRUE],
              [k |-> "bin", op |-> "==", other |-> IntV(1), swap |-> FALSE], [k |-> "bin", op |-> "!=", other |-> StrV(<<50>>), swap |-> TRUE],
              [k |-> "conv", f |-> "String"], [k |-> "in"]>>
DvHint(x) == CASE x.k = "un" -> "number"
               [] x.k = "conv" -> IF x.f = "String" THEN "string" ELSE "number"
               [] x.k = "in" -> "string"
               [] x.k = "bin" -> IF x.op \in {"+", "==", "!="} THEN "default" ELSE "number"
DvCtxDate == {i \in 1..Len(DvCtxSeq) : DvHint(DvCtxSeq[i]) = "default" \/ i \in {1, 15}}
DvStrFirst(c) == DvHint(c.ctx) = "string" \/ (DvHint(c.ctx) = "default" /\ c.base = "date")
DvFi(c) == IF DvStrFirst(c) THEN "ts" ELSE "vo"
DvSe(c) == IF DvStrFirst(c) THEN "vo" ELSE "ts"

(* the concrete initial state of O and P *)
DvF(tag, beh, eff) == CASE beh \in {"prim", "obj", "throw"} -> DvFn(tag, beh, eff) [] beh = "nc" -> DvNc(tag) [] beh = "gthrow" -> DvGThrow(tag)
DvSlot(acc, f) == IF acc THEN DvAcc(f) ELSE DvData(f)
DvInit(c) ==
    LET fi == DvFi(c)  se == DvSe(c)
        fslot(on) == IF c.fi.place # on THEN DvAbsent
                     ELSE DvSlot(c.fi.acc, DvF(DvTag(on, fi), c.fi.beh, DvEff(c.fi.eff, fi, se)))
        sown == IF c.se.own.beh = "absent" THEN DvAbsent ELSE DvSlot(c.se.own.acc, DvF(DvTag("own", se), c.se.own.beh, DvNoEff))
        sproto == IF c.se.proto = "absent" THEN DvAbsent ELSE DvSlot(c.se.proto = "acc", DvFn(DvTag("proto", se), "prim", DvNoEff))
    IN  [own |-> [nm \in {"vo", "ts"} |-> IF nm = fi THEN fslot("own") ELSE sown],
         proto |-> [nm \in {"vo", "ts"} |-> IF nm = fi THEN fslot("proto") ELSE sproto]]

(* the effect of a running method on the state.  "put" is an assignment in non-strict code: 8.12.5 / 8.12.4, *)
(* an accessor without a setter (own, or inherited when there is no own property) rejects it silently      *)
DvApply(st, base, e) ==
    CASE e.k = "none" -> st
      [] e.k = "def" -> [st EXCEPT ![e.on][e.nm] = e.slot]
      [] e.k = "del" -> [st EXCEPT ![e.on][e.nm] = DvAbsent]
      [] e.k = "put" ->
            LET cur == st[e.on][e.nm]
                inh == IF e.on = "own" /\ base = "obj" THEN st.proto[e.nm] ELSE DvAbsent
            IN  IF cur.k = "acc" THEN st
                ELSE IF cur.k = "absent" /\ inh.k = "acc" THEN st
                ELSE [st EXCEPT ![e.on][e.nm] = DvData(e.f)]

(* 8.12.8 steps 1-2 (3-4): [[Get]] (8.12.3: own, then the prototype chain, finally the built-in of           *)
(* Object.prototype / Date.prototype), IsCallable, [[Call]] with O as this, primitive?                       *)
(* kind: "prim" (v) | "next" | "throw" (v) | "bad" (a result this model does not define)                     *)
DvStep(st, base, nm, log) ==
    LET s == IF st.own[nm].k # "absent" THEN st.own[nm] ELSE IF base = "obj" THEN st.proto[nm] ELSE DvAbsent
    IN  IF s.k = "absent"
        THEN IF nm = "vo" THEN (IF base = "date" THEN [kind |-> "prim", v |-> IntV(0), st |-> st, log |-> log]      \* 15.9.5.8: the time value
                                ELSE [kind |-> "next", v |-> Undef, st |-> st, log |-> log])                        \* 15.2.4.4: the object itself
             ELSE IF base = "date" THEN [kind |-> "bad", v |-> Undef, st |-> st, log |-> log]                        \* 15.9.5.2: implementation-dependent text
             ELSE [kind |-> "prim", v |-> StrV(S!S_objObject), st |-> st, log |-> log]                              \* 15.2.4.2
        ELSE LET lg == IF s.k = "acc" THEN Append(log, "g" \o s.f.tag) ELSE log
             IN  CASE s.f.k = "gthrow" -> [kind |-> "throw", v |-> DvGThrown(s.f.tag), st |-> st, log |-> lg]
                   [] s.f.k = "nc" -> [kind |-> "next", v |-> Undef, st |-> st, log |-> lg]
                   [] s.f.k = "fn" ->
                        LET lc == Append(lg, "c" \o s.f.tag)
                            st2 == DvApply(st, base, s.f.eff)
                        IN  CASE s.f.ret = "prim" -> [kind |-> "prim", v |-> DvVal(s.f.tag), st |-> st2, log |-> lc]
                              [] s.f.ret = "obj" -> [kind |-> "next", v |-> Undef, st |-> st2, log |-> lc]
                              [] s.f.ret = "throw" -> [kind |-> "throw", v |-> DvThrown(s.f.tag), st |-> st2, log |-> lc]
DvOut(a) == CASE a.kind = "prim" -> [thr |-> "", v |-> a.v, log |-> a.log]
              [] a.kind = "throw" -> [thr |-> "value", v |-> a.v, log |-> a.log]
              [] a.kind = "bad" -> [thr |-> "BAD", v |-> Undef, log |-> a.log]
DvDefault(c, log) ==
    LET a == DvStep(DvInit(c), c.base, DvFi(c), log)
    IN  IF a.kind # "next" THEN DvOut(a)
        ELSE LET b == DvStep(a.st, c.base, DvSe(c), a.log)
             IN  IF b.kind # "next" THEN DvOut(b) ELSE [thr |-> "TypeError", v |-> Undef, log |-> b.log]     \* 8.12.8 step 5
DvHLog(x) == CASE x.k = "bin" -> <<"H1", "H2">> [] x.k = "un" -> <<"H1">> [] OTHER -> <<>>
DvValid(c) == DvDefault(c, <<>>).thr # "BAD"
DvExpect(Bin(_, _, _, _), Un(_, _, _), Conv(_, _, _), c) ==
    LET x == c.ctx
        d == DvDefault(c, DvHLog(x))
    IN  IF d.thr # "" THEN d
        ELSE CASE x.k = "un" -> Un(x.op, d.v, d.log)
               [] x.k = "conv" -> Conv(x.f, d.v, d.log)
               [] x.k = "bin" -> IF x.swap THEN Bin(x.op, x.other, d.v, d.log) ELSE Bin(x.op, d.v, x.other, d.log)
               [] x.k = "in" -> [thr |-> "", v |-> BoolV(S!ToStringPrim(d.v) \in {<<50>>, <<53>>}), log |-> d.log]    \* 11.8.7 on {2:0, 5:0}

(* the JavaScript text of a "dv" case *)
DvJsName(nm) == IF nm = "vo" THEN "'valueOf'" ELSE "'toString'"
DvJsDot(nm) == IF nm = "vo" THEN ".valueOf" ELSE ".toString"
DvRetJs(f) == CASE f.ret = "prim" -> "return " \o (IF DvIsVo(f.tag) THEN ToString(DvNum(f.tag)) ELSE "'" \o ToString(DvNum(f.tag)) \o "'") \o ";"
                [] f.ret = "obj" -> "return {};"
                [] f.ret = "throw" -> "throw " \o ToString(100 + DvNum(f.tag)) \o ";"
DvFJs(f, effJs) == CASE f.k = "fn" -> "function(){LOG.push('c" \o f.tag \o "');" \o effJs \o DvRetJs(f) \o "}"
                     [] f.k = "nc" -> IF f.tag \in {"xv", "xt"} THEN "undefined" ELSE "{}"
DvSlotJs(tgt, nm, slot, effJs) ==
    CASE slot.k = "absent" -> ""
      [] slot.k = "data" -> "Object.defineProperty(" \o tgt \o "," \o DvJsName(nm) \o ",{value:" \o DvFJs(slot.f, effJs) \o ",writable:true,configurable:true});"
      [] slot.k = "acc" -> "Object.defineProperty(" \o tgt \o "," \o DvJsName(nm) \o ",{get:function(){LOG.push('g" \o slot.f.tag \o "');"
                             \o (IF slot.f.k = "gthrow" THEN "throw " \o ToString(200 + DvNum(slot.f.tag)) \o ";" ELSE "return " \o DvFJs(slot.f, effJs) \o ";")
                             \o "},configurable:true});"
DvTgt(on) == IF on = "own" THEN "this" ELSE "P"
DvEffJs(e) ==
    CASE e.k = "none" -> ""
      [] e.k = "put" -> DvTgt(e.on) \o DvJsDot(e.nm) \o "=" \o DvFJs(e.f, "") \o ";"
      [] e.k = "def" -> DvSlotJs(DvTgt(e.on), e.nm, e.slot, "")
      [] e.k = "del" -> "delete " \o DvTgt(e.on) \o DvJsDot(e.nm) \o ";"
DvSlotJs0(tgt, nm, slot) == DvSlotJs(tgt, nm, slot, IF slot.k # "absent" /\ slot.f.k = "fn" THEN DvEffJs(slot.f.eff) ELSE "")
DvJs(c) ==
    LET st == DvInit(c)
        x == c.ctx
        pre == "var P={},o=" \o (IF c.base = "date" THEN "new Date(0)" ELSE "Object.create(P)") \o ";"
               \o DvSlotJs0("P", "vo", st.proto.vo) \o DvSlotJs0("P", "ts", st.proto.ts)
               \o DvSlotJs0("o", "vo", st.own.vo) \o DvSlotJs0("o", "ts", st.own.ts)
    IN  CASE x.k = "un" -> <<pre \o x.op \o " (H(1),o)">>
          [] x.k = "conv" -> (CASE x.f \in {"Number", "String"} -> <<pre \o x.f \o "(o)">>
                                [] x.f = "ToUint16" -> <<pre \o "String.fromCharCode(o).charCodeAt(0)">>)
          [] x.k = "in" -> <<pre \o "o in {2:0,5:0}">>
          [] x.k = "bin" -> IF x.swap THEN <<pre \o "(H(1),", Lit(x.other), ") " \o x.op \o " (H(2),o)">>
                            ELSE <<pre \o "(H(1),o) " \o x.op \o " (H(2),", Lit(x.other), ")">>

(* the JavaScript text of a case, and the expected result *)
Js(c) ==
    CASE c.fam = "bin" -> <<"(H(1),", Lit(c.a), ") " \o c.op \o " (H(2),", Lit(c.b), ")">>
      [] c.fam = "un" -> <<c.op \o " (H(1),", Lit(c.a), ")">>
      [] c.fam = "repun" -> <<c.op \o " (H(1),">> \o Car(c.car, c.a) \o <<")">>
      [] c.fam = "repbin" -> IF c.swap THEN <<"(H(1),", Lit(c.b), ") " \o c.op \o " (H(2),">> \o Car(c.car, c.a) \o <<")">>
                             ELSE <<"(H(1),">> \o Car(c.car, c.a) \o <<") " \o c.op \o " (H(2),", Lit(c.b), ")">>
      [] c.fam = "repconv" ->
            (CASE c.f \in {"Number", "String", "Boolean"} -> <<c.f \o "(">> \o Car(c.car, c.a) \o <<")">>
               [] c.f = "ToInt32" -> <<"(">> \o Car(c.car, c.a) \o <<") >> 0">>
               [] c.f = "ToUint32" -> <<"(">> \o Car(c.car, c.a) \o <<") >>> 0">>
               [] c.f = "ToUint16" -> <<"String.fromCharCode(">> \o Car(c.car, c.a) \o <<").charCodeAt(0)">>)
      [] c.fam = "conv" ->
            (CASE c.f \in {"Number", "String", "Boolean"} -> <<c.f \o "(", Lit(c.a), ")">>
               [] c.f = "ToInt32" -> <<"(", Lit(c.a), ") >> 0">>
               [] c.f = "ToUint32" -> <<"(", Lit(c.a), ") >>> 0">>
               [] c.f = "ToUint16" -> <<"String.fromCharCode(", Lit(c.a), ").charCodeAt(0)">>)
      [] c.fam = "logic" -> <<"(H(1),", Lit(c.a), ") " \o c.op \o " (H(2),", Lit(c.b), ")">>
      [] c.fam = "cond" -> <<"(H(1),", Lit(c.a), ") ? (H(2),1) : (H(3),2)">>
      \* GetValue of both operands precedes every conversion: a conversion that assigns the
      \* other operand's variable must not be seen (order1: right operand, order2: left operand)
      [] c.fam = "order1" -> <<"var b = 1; var a = {valueOf: function(){ b = 100; return 3; }}; a " \o c.op \o " b">>
      [] c.fam = "order2" -> <<"var a = 3; a " \o c.op \o " (a = 50, 1)">>
      [] c.fam = "compound" -> <<"var x = ", Lit(c.a), "; x " \o c.op \o "= (x = ", Lit(c.b), ", ", Lit(c.c), "); x">>
      [] c.fam = "upd" -> UpdJs(c, <<Lit(c.a)>>)
      [] c.fam = "repupd" -> UpdJs(c, Car(c.car, c.a))
      [] c.fam = "dv" -> DvJs(c)

Expect(Bin(_, _, _, _), Un(_, _, _), Conv(_, _, _), TB(_), c) ==
    CASE c.fam = "bin" -> Bin(c.op, c.a, c.b, <<HLog(1), HLog(2)>>)
      [] c.fam \in {"un", "repun"} -> Un(c.op, c.a, <<HLog(1)>>)
      [] c.fam = "repconv" -> Conv(c.f, c.a, <<>>)
      [] c.fam = "repbin" -> IF c.swap THEN Bin(c.op, c.b, c.a, <<HLog(1), HLog(2)>>) ELSE Bin(c.op, c.a, c.b, <<HLog(1), HLog(2)>>)
      [] c.fam = "conv" -> Conv(c.f, c.a, <<>>)
      [] c.fam = "logic" ->
            IF (c.op = "&&") = TB(c.a) THEN [thr |-> "", v |-> c.b, log |-> <<HLog(1), HLog(2)>>]
            ELSE [thr |-> "", v |-> c.a, log |-> <<HLog(1)>>]
      [] c.fam = "cond" -> IF TB(c.a) THEN [thr |-> "", v |-> IntV(1), log |-> <<HLog(1), HLog(2)>>]
                           ELSE [thr |-> "", v |-> IntV(2), log |-> <<HLog(1), HLog(3)>>]
      [] c.fam \in {"order1", "order2"} -> Bin(c.op, IntV(3), IntV(1), <<>>)
      [] c.fam = "compound" -> Bin(c.op, c.a, c.c, <<>>)      \* 11.13.2: GetValue(lref) precedes the right operand
      [] c.fam \in {"upd", "repupd"} -> UpdExpect(Bin, Un, c)
      [] c.fam = "dv" -> DvExpect(Bin, Un, Conv, c)

(* object results are compared by identity *)
Proj(r) == IF r.v.t = "cobj" THEN [r EXCEPT !.v = [t |-> "cobj", id |-> r.v.id]] ELSE r

(* Evaluation is spread over the TLC workers: an initial state is a block,   *)
(* its successors are the cases of the block.  Fam = "small": K blocks of    *)
(* SmallCases by index; Fam = "bin": one block per (operator, left operand), *)
(* successors range over the right operand.  NSel > 0 draws a random subset  *)
(* of each block instead (TLC -seed).                                        *)
K == 64
CaseSeq == SetToSeq(SmallCases)
None == [fam |-> "none"]
Sub(S0) == IF NSel = 0 \/ NSel >= Cardinality(S0) THEN S0 ELSE RandomSubset(NSel, S0)
(* family "dv" (run with the small families): one block per configuration of the first method (blk[2] = 1: *)
(* ordinary object, 2: Date), successors over the configurations of the second method and the contexts    *)
DvCase(base, f, x, i) == [fam |-> "dv", base |-> base, fi |-> f, se |-> x, ctx |-> DvCtxSeq[i]]
Init == /\ cs = None
        /\ IF Fam = "small" THEN blk \in {<<b, 0>> : b \in 1..K} \cup {<<b, 1>> : b \in 1..Len(DvFirstSeq)}
                                        \cup {<<b, 2>> : b \in 1..Len(DvFirstDateSeq)}
           ELSE blk \in (1..Len(OpSeq)) \X (1..Len(ValSeq))
Next == /\ cs = None
        /\ UNCHANGED blk
        /\ IF Fam = "small" /\ blk[2] = 1
           THEN \E j \in 1..Len(DvSecondSeq), i \in 1..Len(DvCtxSeq) : cs' = DvCase("obj", DvFirstSeq[blk[1]], DvSecondSeq[j], i)
           ELSE IF Fam = "small" /\ blk[2] = 2
           THEN \E j \in 1..Len(DvSecondDateSeq), i \in DvCtxDate :
                    LET c == DvCase("date", DvFirstDateSeq[blk[1]], DvSecondDateSeq[j], i) IN DvValid(c) /\ cs' = c
           ELSE IF Fam = "small"
           THEN \E j \in Sub({i \in 1..Len(CaseSeq) : i % K = blk[1] - 1}) : cs' = CaseSeq[j]
           ELSE \E j \in Sub(1..Len(ValSeq)) :
                   cs' = [fam |-> "bin", op |-> OpSeq[blk[1]], a |-> ValSeq[blk[2]], b |-> ValSeq[j]]
Emit ==
    cs = None \/
    LET es == Proj(Expect(S!Binary, S!Unary, S!Convert, S!ToBooleanV, cs))
        ed == Proj(Expect(L!Binary, L!Unary, L!Convert, L!ToBooleanV, cs))
    IN  PrintT("VJSON " \o ToJson([c |-> cs, js |-> Js(cs), exp |-> es, dev |-> IF ed = es THEN <<>> ELSE <<ed>>]))
=============================================================================
