-------------------------------- MODULE C05 ---------------------------------
(* Generator for property C05: every operator of clause 11 and every         *)
(* conversion of clause 9 on a dense boundary set of values.  Each state is  *)
(* one case; the invariant Emit prints the JavaScript text of the case (as   *)
(* parts: verbatim strings and values) together with the result ES5          *)
(* prescribes, including the log of scripted valueOf/toString/H() calls.     *)
EXTENDS NumText, Json, TLC, SequencesExt, Randomization
CONSTANTS OpenDev, Fam, NSel
VARIABLES blk, cs

S == INSTANCE Ops WITH Dev <- {}
L == INSTANCE Ops WITH Dev <- OpenDev

Pow2(k) == Canon(FALSE, <<1>>, k)
NumsPos == {I(1), Canon(FALSE, <<1>>, -1), Canon(FALSE, <<3>>, -1), I(2), I(3), I(10), I(255),
            NumSub(Pow2(31), I(1)), Pow2(31), NumAdd(Pow2(31), I(1)),
            NumSub(Pow2(32), I(1)), Pow2(32), NumAdd(Pow2(32), I(1)),
            NumSub(Pow2(53), I(1)), Pow2(53), NumAdd(Pow2(53), I(2)), Pow2(63), Pow2(64),
            DecToNum(FALSE, <<1>>, 21),
            DecToNum(FALSE, <<1>>, -7), DecToNum(FALSE, BnFromInt(123456), -3),
            NumAdd(NumSub(Pow2(32), I(1)), Canon(FALSE, <<1>>, -1))}
Nums == {NaN, I(0), NZero, PInf, NInf} \cup NumsPos \cup {NumNeg(x) : x \in NumsPos}

(* extreme magnitudes: used with the arithmetic and comparison operators only *)
(* (their decimal strings belong to property C06)                            *)
Extremes == {Canon(FALSE, <<1>>, -1074), Canon(FALSE, BnSub(BnShl(<<1>>, 53), <<1>>), 971),
             Canon(TRUE, BnSub(BnShl(<<1>>, 53), <<1>>), 971), Canon(FALSE, <<1>>, -1022), Canon(FALSE, <<1>>, 1023)}

Strs == {TestStrings[i] : i \in 1..Len(TestStrings)}
(* long hexadecimal strings (9.3.1: the MV of a HexIntegerLiteral of any length, rounded once) *)
LongStrs == {StrV(TestStringsLong[i]) : i \in 1..Len(TestStringsLong)}
LongStrsBin == {v \in LongStrs : Len(v.s) < 100}      \* the 259-unit string: conversions and unary operators only

RetP(v) == [k |-> "ret", v |-> v]
Objs == {[t |-> "cobj", id |-> 1, vo |-> RetP(IntV(7)), ts |-> RetP(StrV(<<55>>))],
         [t |-> "cobj", id |-> 2, vo |-> [k |-> "inherit"], ts |-> [k |-> "inherit"]],
         [t |-> "cobj", id |-> 3, vo |-> [k |-> "retobj"], ts |-> RetP(StrV(<<50, 48>>))],
         [t |-> "cobj", id |-> 4, vo |-> [k |-> "retobj"], ts |-> [k |-> "retobj"]],
         [t |-> "cobj", id |-> 5, vo |-> [k |-> "throw"], ts |-> RetP(StrV(<<120>>))],
         [t |-> "cobj", id |-> 6, vo |-> RetP(StrV(<<49, 48>>)), ts |-> [k |-> "throw"]],
         [t |-> "cobj", id |-> 7, vo |-> [k |-> "noncallable"], ts |-> RetP(BoolV(TRUE))],
         [t |-> "cobj", id |-> 8, vo |-> RetP(Null), ts |-> RetP(Undef)],
         \* Date objects (id >= 50): no hint means hint String
         [t |-> "cobj", id |-> 51, vo |-> RetP(IntV(3)), ts |-> RetP(StrV(<<50, 48>>))],
         [t |-> "cobj", id |-> 52, vo |-> RetP(IntV(4)), ts |-> [k |-> "retobj"]],
         [t |-> "cobj", id |-> 53, vo |-> RetP(StrV(<<49, 48>>)), ts |-> [k |-> "throw"]]}
Fns == {[t |-> "fn", name |-> "Object"], [t |-> "fn", name |-> "Function"]}

Vals == {Undef, Null, BoolV(TRUE), BoolV(FALSE)} \cup {NumV(n) : n \in Nums} \cup {StrV(s) : s \in Strs} \cup Objs

BinOps == {"+", "-", "*", "/", "%", "&", "|", "^", "<<", ">>", ">>>", "<", ">", "<=", ">=",
           "==", "!=", "===", "!==", "in", "instanceof"}
UnOps == {"+", "-", "~", "!", "typeof", "void"}
Convs == {"Number", "String", "Boolean", "ToInt32", "ToUint32", "ToUint16"}

(* family "rep": the same Number in different INTERNAL representations.  An implementation may keep the  *)
(* result of a bitwise operator as a 32-bit integer, and a number that the embedding program handed over  *)
(* (Otto.Set) as the Go integer or float kind it came in; clauses 9 and 11 see only the Number value.  A   *)
(* carrier is an expression around the literal (or0, shr0) or a Go kind through which the harness injects *)
(* the value ([t |-> "gonum"]); the value the operator must see is the double of the same magnitude.       *)
RepNums == <<I(0), I(1), I(-1), I(7), I(-7), I(127), I(-128), I(255), I(32767), I(-32768), I(65535),
             NumSub(Pow2(31), I(1)), NumNeg(Pow2(31)), Pow2(31), NumSub(Pow2(32), I(1)), Pow2(32),
             NumSub(Pow2(53), I(1)), Pow2(53), NumAdd(Pow2(53), I(2)), NumNeg(NumAdd(Pow2(53), I(2))), Pow2(57), NumAdd(Pow2(57), Pow2(10)), Pow2(60), NumNeg(Pow2(60)),
             NumSub(Pow2(63), Pow2(10)), NumNeg(Pow2(63)), Pow2(63), NumSub(Pow2(64), Pow2(11)),
             DecToNum(FALSE, <<1>>, 18), DecToNum(FALSE, <<1>>, 19), Canon(FALSE, <<3>>, -1), Canon(TRUE, <<1>>, -1)>>
KindLo(k) == CASE k = "int8" -> NumNeg(Pow2(7)) [] k = "int16" -> NumNeg(Pow2(15)) [] k \in {"int32", "or0"} -> NumNeg(Pow2(31))
               [] k \in {"int", "int64"} -> NumNeg(Pow2(63)) [] OTHER -> I(0)
KindHi(k) == CASE k = "int8" -> I(127) [] k = "int16" -> I(32767) [] k \in {"int32", "or0"} -> NumSub(Pow2(31), I(1))
               [] k \in {"int", "int64"} -> NumSub(Pow2(63), Pow2(10)) [] k = "uint8" -> I(255) [] k = "uint16" -> I(65535)
               [] k \in {"uint32", "shr0"} -> NumSub(Pow2(32), I(1)) [] k \in {"uint", "uint64"} -> NumSub(Pow2(64), Pow2(11))
GoIntKinds == {"int", "int8", "int16", "int32", "int64", "uint", "uint8", "uint16", "uint32", "uint64"}
Carriers == GoIntKinds \cup {"or0", "shr0", "float64", "float32"}
Fits(k, n) ==
    CASE k = "float64" -> TRUE
      [] k = "float32" -> n \in {I(0), I(1), I(-1), I(7), I(255), I(65535), Pow2(31), Pow2(32), NumNeg(Pow2(31)), Pow2(60), Pow2(63), Canon(FALSE, <<3>>, -1), Canon(TRUE, <<1>>, -1)}
      [] OTHER -> IsInteger(n) /\ NumCmp(KindLo(k), n) <= 0 /\ NumCmp(n, KindHi(k)) <= 0
RepVals == {r \in {[car |-> k, n |-> RepNums[i]] : k \in Carriers, i \in 1..Len(RepNums)} : Fits(r.car, r.n)}
RepCases ==
    {[fam |-> "repun", op |-> op, car |-> r.car, a |-> NumV(r.n)] : op \in UnOps, r \in RepVals}
    \cup {[fam |-> "repconv", f |-> f, car |-> r.car, a |-> NumV(r.n)] : f \in Convs, r \in RepVals}
    \cup {[fam |-> "repbin", op |-> op, car |-> r.car, a |-> NumV(r.n), b |-> b, swap |-> sw] :
             op \in {"+", "*", "%", "==", "===", "<", ">=", "|", ">>>"}, r \in RepVals,
             b \in {IntV(1), StrV(<<>>), StrV(<<49>>), Undef}, sw \in BOOLEAN}
    \cup {[fam |-> "repbin", op |-> op, car |-> r.car, a |-> NumV(r.n), b |-> NumV(r.n), swap |-> sw] :
             op \in {"+", "*", "%", "==", "===", "<", ">=", "|", ">>>"}, r \in RepVals, sw \in BOOLEAN}

(* small families: an explicit set of cases *)
SmallCases ==
    RepCases \cup
    {[fam |-> "un", op |-> op, a |-> a] : op \in UnOps, a \in Vals}
    \cup {[fam |-> "un", op |-> op, a |-> a] : op \in {"!", "typeof", "void"}, a \in Fns}
    \cup {[fam |-> "conv", f |-> f, a |-> a] : f \in Convs, a \in Vals}
    \cup {[fam |-> "logic", op |-> op, a |-> a, b |-> b] : op \in {"&&", "||"}, a \in Vals, b \in {IntV(1), Undef}}
    \cup {[fam |-> "cond", a |-> a] : a \in Vals}
    \cup {[fam |-> "un", op |-> op, a |-> a] : op \in UnOps, a \in LongStrs}
    \cup {[fam |-> "conv", f |-> f, a |-> a] : f \in Convs, a \in LongStrs}
    \cup {[fam |-> "bin", op |-> op, a |-> a, b |-> b] : op \in BinOps \ {"in", "instanceof"}, a \in LongStrsBin,
             b \in LongStrsBin \cup {IntV(1), StrV(<<49, 48>>), BoolV(TRUE), NumV(Pow2(64)), Undef}}
    \cup {[fam |-> "bin", op |-> op, a |-> b, b |-> a] : op \in BinOps \ {"in", "instanceof"}, a \in LongStrsBin,
             b \in {IntV(1), StrV(<<49, 48>>), BoolV(TRUE), NumV(Pow2(64)), Undef}}
    \cup {[fam |-> "compound", op |-> op, a |-> a, b |-> b, c |-> c] :
             op \in {"+", "-", "*", "<<", "&"}, a \in {IntV(1), StrV(<<97>>)}, b \in {IntV(5)}, c \in {IntV(2), StrV(<<98>>)}}
    \cup {[fam |-> "bin", op |-> op, a |-> a, b |-> b] : op \in {"in", "instanceof", "===", "!=="}, a \in Vals \cup Fns, b \in Fns}
    \cup {[fam |-> "bin", op |-> "instanceof", a |-> a, b |-> b] : a \in Vals \cup Fns, b \in {[t |-> "fn", name |-> "FNP"], [t |-> "fn", name |-> "FBP"]}}
    \cup {[fam |-> f, op |-> op] : f \in {"order1", "order2"},
             op \in {"+", "-", "*", "/", "%", "<", ">", "<=", ">=", "==", "!=", "&", "|", "^", "<<", ">>", ">>>"}}
    \cup {[fam |-> "bin", op |-> op, a |-> NumV(a), b |-> NumV(b)] :
             op \in {"+", "-", "*", "/", "%", "<", "==", "===", ">>>", "|"}, a \in Extremes, b \in Nums \cup Extremes}
    \cup {[fam |-> "bin", op |-> op, a |-> NumV(b), b |-> NumV(a)] :
             op \in {"+", "-", "*", "/", "%", "<", "==", "===", ">>>", "|"}, a \in Extremes, b \in Nums}

(* the big family: every binary operator on every ordered pair of Vals,      *)
(* addressed by index so that the product set is never built                 *)
OpSeq  == SetToSeq(BinOps)
ValSeq == SetToSeq(Vals)

Lit(v) == [lit |-> v]
HLog(k) == "H" \o ToString(k)
(* a value delivered through a carrier *)
Car(car, v) == CASE car = "or0" -> <<"(", Lit(v), "|0)">> [] car = "shr0" -> <<"(", Lit(v), ">>>0)">>
                 [] OTHER -> <<Lit([t |-> "gonum", kind |-> car, n |-> v.n])>>

(* the JavaScript text of a case, and the expected result *)
Js(c) ==
    CASE c.fam = "bin" -> <<"(H(1),", Lit(c.a), ") " \o c.op \o " (H(2),", Lit(c.b), ")">>
      [] c.fam = "un" -> <<c.op \o " (H(1),", Lit(c.a), ")">>
      [] c.fam = "repun" -> <<c.op \o " (H(1),">> \o Car(c.car, c.a) \o <<")">>
      [] c.fam = "repbin" -> IF c.swap THEN <<"(H(1),", Lit(c.b), ") " \o c.op \o " (H(2),">> \o Car(c.car, c.a) \o <<")">>
                             ELSE <<"(H(1),">> \o Car(c.car, c.a) \o <<") " \o c.op \o " (H(2),", Lit(c.b), ")">>
      [] c.fam = "repconv" ->
            (CASE c.f \in {"Number", "String", "Boolean"} -> <<c.f \o "(">> \o Car(c.car, c.a) \o <<")">>
               [] c.f = "ToInt32" -> <<"(">> \o Car(c.car, c.a) \o <<") >> 0">>
               [] c.f = "ToUint32" -> <<"(">> \o Car(c.car, c.a) \o <<") >>> 0">>
               [] c.f = "ToUint16" -> <<"String.fromCharCode(">> \o Car(c.car, c.a) \o <<").charCodeAt(0)">>)
      [] c.fam = "conv" ->
            (CASE c.f \in {"Number", "String", "Boolean"} -> <<c.f \o "(", Lit(c.a), ")">>
               [] c.f = "ToInt32" -> <<"(", Lit(c.a), ") >> 0">>
               [] c.f = "ToUint32" -> <<"(", Lit(c.a), ") >>> 0">>
               [] c.f = "ToUint16" -> <<"String.fromCharCode(", Lit(c.a), ").charCodeAt(0)">>)
      [] c.fam = "logic" -> <<"(H(1),", Lit(c.a), ") " \o c.op \o " (H(2),", Lit(c.b), ")">>
      [] c.fam = "cond" -> <<"(H(1),", Lit(c.a), ") ? (H(2),1) : (H(3),2)">>
      \* GetValue of both operands precedes every conversion: a conversion that assigns the
      \* other operand's variable must not be seen (order1: right operand, order2: left operand)
      [] c.fam = "order1" -> <<"var b = 1; var a = {valueOf: function(){ b = 100; return 3; }}; a " \o c.op \o " b">>
      [] c.fam = "order2" -> <<"var a = 3; a " \o c.op \o " (a = 50, 1)">>
      [] c.fam = "compound" -> <<"var x = ", Lit(c.a), "; x " \o c.op \o "= (x = ", Lit(c.b), ", ", Lit(c.c), "); x">>

Expect(Bin(_, _, _, _), Un(_, _, _), Conv(_, _, _), TB(_), c) ==
    CASE c.fam = "bin" -> Bin(c.op, c.a, c.b, <<HLog(1), HLog(2)>>)
      [] c.fam \in {"un", "repun"} -> Un(c.op, c.a, <<HLog(1)>>)
      [] c.fam = "repconv" -> Conv(c.f, c.a, <<>>)
      [] c.fam = "repbin" -> IF c.swap THEN Bin(c.op, c.b, c.a, <<HLog(1), HLog(2)>>) ELSE Bin(c.op, c.a, c.b, <<HLog(1), HLog(2)>>)
      [] c.fam = "conv" -> Conv(c.f, c.a, <<>>)
      [] c.fam = "logic" ->
            IF (c.op = "&&") = TB(c.a) THEN [thr |-> "", v |-> c.b, log |-> <<HLog(1), HLog(2)>>]
            ELSE [thr |-> "", v |-> c.a, log |-> <<HLog(1)>>]
      [] c.fam = "cond" -> IF TB(c.a) THEN [thr |-> "", v |-> IntV(1), log |-> <<HLog(1), HLog(2)>>]
                           ELSE [thr |-> "", v |-> IntV(2), log |-> <<HLog(1), HLog(3)>>]
      [] c.fam \in {"order1", "order2"} -> Bin(c.op, IntV(3), IntV(1), <<>>)
      [] c.fam = "compound" -> Bin(c.op, c.a, c.c, <<>>)      \* 11.13.2: GetValue(lref) precedes the right operand

(* object results are compared by identity *)
Proj(r) == IF r.v.t = "cobj" THEN [r EXCEPT !.v = [t |-> "cobj", id |-> r.v.id]] ELSE r

(* Evaluation is spread over the TLC workers: an initial state is a block,   *)
(* its successors are the cases of the block.  Fam = "small": K blocks of    *)
(* SmallCases by index; Fam = "bin": one block per (operator, left operand), *)
(* successors range over the right operand.  NSel > 0 draws a random subset  *)
(* of each block instead (TLC -seed).                                        *)
K == 64
CaseSeq == SetToSeq(SmallCases)
None == [fam |-> "none"]
Sub(S0) == IF NSel = 0 \/ NSel >= Cardinality(S0) THEN S0 ELSE RandomSubset(NSel, S0)
Init == /\ cs = None
        /\ IF Fam = "small" THEN blk \in {<<b, 0>> : b \in 1..K}
           ELSE blk \in (1..Len(OpSeq)) \X (1..Len(ValSeq))
Next == /\ cs = None
        /\ UNCHANGED blk
        /\ IF Fam = "small"
           THEN \E j \in Sub({i \in 1..Len(CaseSeq) : i % K = blk[1] - 1}) : cs' = CaseSeq[j]
           ELSE \E j \in Sub(1..Len(ValSeq)) :
                   cs' = [fam |-> "bin", op |-> OpSeq[blk[1]], a |-> ValSeq[blk[2]], b |-> ValSeq[j]]
Emit ==
    cs = None \/
    LET es == Proj(Expect(S!Binary, S!Unary, S!Convert, S!ToBooleanV, cs))
        ed == Proj(Expect(L!Binary, L!Unary, L!Convert, L!ToBooleanV, cs))
    IN  PrintT("VJSON " \o ToJson([c |-> cs, js |-> Js(cs), exp |-> es, dev |-> IF ed = es THEN <<>> ELSE <<ed>>]))
=============================================================================
