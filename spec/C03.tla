-------------------------------- MODULE C03 ---------------------------------
(* Generator for property C03 (the parser builds the tree the ES5 grammar    *)
(* dictates).  A TLC state is one syntax tree (or one hand-written token     *)
(* sequence); the invariant Emit prints one line per RENDERING of it:        *)
(*   [fam, tag, src: source text as code units,                              *)
(*    exp: Grammar!Classify of the token sequence with the line-terminator   *)
(*         flags this rendering implies (accept + tree | reject | skip),     *)
(*    dev: the same under the open deviations when it differs, bug]          *)
(* For tree-derived cases TLC also checks the vacuity guard                  *)
(*   ParseProgram(Toks(tree)) = tree  (bug # "" if it fails)                 *)
(* for every rendering that must not change the tree (white space, comments  *)
(* without line terminators, redundant parentheses).                         *)
EXTENDS NumText, Json, TLC, SequencesExt, Randomization
CONSTANTS OpenDev, Fams, NSel, Salt, FullMod
VARIABLES blk, cs

S == INSTANCE Grammar WITH Dev <- {}
L == INSTANCE Grammar WITH Dev <- OpenDev

TP(s) == S!TP(s)
TK(s) == S!TK(s)
TI(s) == S!TI(s)
TNum(s) == S!TNum(s)
TStr(s) == S!TStr(s)
TRe(b, f) == S!TRe(b, f)
U(name) == S!LexSrc[name]

-----------------------------------------------------------------------------
(* tree constructors *)
Id(n) == [k |-> "id", n |-> n]
Num(i) == [k |-> "num", v |-> I(i)]
Str(s) == [k |-> "str", s |-> s]
Re(b, f) == [k |-> "re", body |-> b, flags |-> f]
Bin(op, l, r) == [k |-> "bin", op |-> op, l |-> l, r |-> r]
Seq2(l, r) == [k |-> "seq", l |-> l, r |-> r]
Asg(op, l, r) == [k |-> "asg", op |-> op, l |-> l, r |-> r]
Un(op, e) == [k |-> "un", op |-> op, e |-> e]
Upd(op, pre, e) == [k |-> "upd", op |-> op, pre |-> pre, e |-> e]
Cond(t, a, b) == [k |-> "cond", t |-> t, a |-> a, b |-> b]
Dot(o, n) == [k |-> "dot", o |-> o, n |-> n]
Idx(o, p) == [k |-> "idx", o |-> o, p |-> p]
Call(f, args) == [k |-> "call", f |-> f, args |-> args]
New(f, args, pa) == [k |-> "new", f |-> f, args |-> args, pa |-> pa]
Arr(el) == [k |-> "arr", el |-> el]
Hole == [k |-> "hole"]
Obj(pr) == [k |-> "obj", pr |-> pr]
PV(key, val) == [kind |-> "value", key |-> key, val |-> val]
Fn(name, params, body) == [k |-> "fn", name |-> name, params |-> params, body |-> body]
PG(key, body) == [kind |-> "get", key |-> key, val |-> Fn("", <<>>, body)]
PS(key, p, body) == [kind |-> "set", key |-> key, val |-> Fn("", <<p>>, body)]
This == [k |-> "this"]
NullE == [k |-> "null"]
BoolE(b) == [k |-> "bool", b |-> b]

ES(e) == [k |-> "expr", e |-> e]
Var(ds) == [k |-> "var", decls |-> ds]
VD(n) == [n |-> n, init |-> <<>>]
VI(n, e) == [n |-> n, init |-> <<e>>]
Block(b) == [k |-> "block", body |-> b]
If(t, a) == [k |-> "if", t |-> t, a |-> a, b |-> <<>>]
IfE(t, a, b) == [k |-> "if", t |-> t, a |-> a, b |-> <<b>>]
For(i, t, u, b) == [k |-> "for", init |-> i, test |-> t, update |-> u, body |-> b]
ForIn(l, o, b) == [k |-> "forin", left |-> l, obj |-> o, body |-> b]
While(t, b) == [k |-> "while", t |-> t, body |-> b]
DoW(b, t) == [k |-> "dowhile", body |-> b, t |-> t]
Brk(l) == [k |-> "break", l |-> l]
Cont(l) == [k |-> "continue", l |-> l]
Ret(e) == [k |-> "return", e |-> e]
Throw(e) == [k |-> "throw", e |-> e]
Try(b, p, h, hasH, f, hasF) == [k |-> "try", block |-> b, param |-> p, handler |-> h, hasH |-> hasH, fin |-> f, hasF |-> hasF]
Sw(d, cs0) == [k |-> "switch", d |-> d, cases |-> cs0]
CaseC(t, b) == [test |-> <<t>>, body |-> b]
DefC(b) == [test |-> <<>>, body |-> b]
Lab(l, b) == [k |-> "label", l |-> l, body |-> b]
With(o, b) == [k |-> "with", o |-> o, body |-> b]
FDecl(name, params, body) == [k |-> "fdecl", name |-> name, params |-> params, body |-> body]
Empty == [k |-> "empty"]
Dbg == [k |-> "debugger"]

A == Id("a")
B == Id("b")
C == Id("c")
Dd == Id("d")
Ee == Id("e")
X == Id("x")
Y == Id("y")
Z == Id("z")
K1 == <<97>>          \* "a"
K2 == <<98>>          \* "b"

-----------------------------------------------------------------------------
(* operator forms: one node with identifier operands *)
BinOpList == <<"||", "&&", "|", "^", "&", "==", "!=", "===", "!==", "<", ">", "<=", ">=", "instanceof", "in",
               "<<", ">>", ">>>", "+", "-", "*", "/", "%">>
AsgOpList == <<"=", "+", "-", "*", "/", "%", "<<", ">>", ">>>", "&", "|", "^">>
UnOpList == <<"+", "-", "!", "~", "delete", "void", "typeof">>
Forms ==
    [j \in 1..Len(BinOpList) |-> [t |-> "bin", op |-> BinOpList[j]]]
    \o <<[t |-> "seq", op |-> ""]>>
    \o [j \in 1..Len(AsgOpList) |-> [t |-> "asg", op |-> AsgOpList[j]]]
    \o [j \in 1..Len(UnOpList) |-> [t |-> "un", op |-> UnOpList[j]]]
    \o <<[t |-> "pre", op |-> "++"], [t |-> "pre", op |-> "--"], [t |-> "post", op |-> "++"], [t |-> "post", op |-> "--"],
         [t |-> "cond", op |-> ""], [t |-> "dot", op |-> ""], [t |-> "idx", op |-> ""],
         [t |-> "call0", op |-> ""], [t |-> "call1", op |-> ""],
         [t |-> "new0", op |-> ""], [t |-> "newp", op |-> ""], [t |-> "new1", op |-> ""]>>
NF == Len(Forms)
Arity(f) == CASE f.t \in {"bin", "seq", "asg", "idx", "call1", "new1"} -> 2
              [] f.t = "cond" -> 3
              [] OTHER -> 1
TargetPos(f, p) == (f.t = "asg" /\ p = 1) \/ f.t \in {"pre", "post"}
IsTargetForm(f) == f.t \in {"dot", "idx"}
Mk(f, kd) ==
    CASE f.t = "bin" -> Bin(f.op, kd[1], kd[2])
      [] f.t = "seq" -> Seq2(kd[1], kd[2])
      [] f.t = "asg" -> Asg(f.op, kd[1], kd[2])
      [] f.t = "un" -> Un(f.op, kd[1])
      [] f.t = "pre" -> Upd(f.op, TRUE, kd[1])
      [] f.t = "post" -> Upd(f.op, FALSE, kd[1])
      [] f.t = "cond" -> Cond(kd[1], kd[2], kd[3])
      [] f.t = "dot" -> Dot(kd[1], "m")
      [] f.t = "idx" -> Idx(kd[1], kd[2])
      [] f.t = "call0" -> Call(kd[1], <<>>)
      [] f.t = "call1" -> Call(kd[1], <<kd[2]>>)
      [] f.t = "new0" -> New(kd[1], <<>>, FALSE)
      [] f.t = "newp" -> New(kd[1], <<>>, TRUE)
      [] f.t = "new1" -> New(kd[1], <<kd[2]>>, TRUE)
Outer == <<A, B, C>>
Inner == <<X, Y, Z>>
Inner3 == <<Id("p"), Id("q"), Id("r")>>
ValidAt(f, p, g) == TargetPos(f, p) => IsTargetForm(g)
Tree1(fi) == Mk(Forms[fi], Outer)
Tree2(fi, p, gi) == Mk(Forms[fi], [j \in 1..3 |-> IF j = p THEN Mk(Forms[gi], Inner) ELSE Outer[j]])
Tree3(fi, p, gi, q, hi) ==
    Mk(Forms[fi], [j \in 1..3 |-> IF j = p THEN Mk(Forms[gi], [m \in 1..3 |-> IF m = q THEN Mk(Forms[hi], Inner3) ELSE Inner[m]])
                                  ELSE Outer[j]])
Positions == {x \in (1..NF) \X (1..3) : x[2] <= Arity(Forms[x[1]])}

(* primaries of every kind, to be put under every operand position *)
NumTree(src) == [k |-> "num", v |-> S!NumLitMV(src)]
Prims == <<Num(1), Str(<<104, 105>>), This, NullE, BoolE(TRUE), BoolE(FALSE), Re(<<120>>, <<>>), Re(<<91, 47, 93, 92, 47>>, <<103, 105>>),
           Arr(<<>>), Arr(<<X, Hole, Y>>), Arr(<<Hole>>), Arr(<<X, Hole>>), Obj(<<>>), Obj(<<PV(K1, X)>>), Obj(<<PV(K1, X), PG(K2, <<Ret(<<Y>>)>>), PS(K2, "v", <<>>)>>),
           Fn("", <<>>, <<>>), Fn("g", <<"u", "v">>, <<Ret(<<Id("u")>>)>>), Num(0), NumTree(<<49, 46, 53>>), NumTree(<<48, 120, 49, 48>>)>>
TreeP(fi, p, pi) == Mk(Forms[fi], [j \in 1..3 |-> IF j = p THEN Prims[pi] ELSE Outer[j]])

RECURSIVE HasIn(_)
HasIn(e) ==
    CASE e.k = "bin" -> e.op = "in" \/ HasIn(e.l) \/ HasIn(e.r)
      [] e.k \in {"seq", "asg"} -> HasIn(e.l) \/ HasIn(e.r)
      [] e.k \in {"un", "upd"} -> HasIn(e.e)
      [] e.k = "cond" -> HasIn(e.t) \/ HasIn(e.a) \/ HasIn(e.b)
      [] e.k = "dot" -> HasIn(e.o)
      [] e.k = "idx" -> HasIn(e.o) \/ HasIn(e.p)
      [] e.k \in {"call", "new"} -> HasIn(e.f) \/ \E j \in 1..Len(e.args) : HasIn(e.args[j])
      [] OTHER -> FALSE

(* the programs an expression tree is tried in *)
ExprPrograms(e) ==
    <<<<ES(e)>>>>
    \o (IF HasIn(e) THEN << <<For(<<e>>, <<>>, <<>>, Empty)>>, <<For(<<Var(<<VI("v", e)>>)>>, <<>>, <<>>, Empty)>> >> ELSE <<>>)

-----------------------------------------------------------------------------
(* statement trees *)
Ret0 == FDecl("f", <<>>, <<Ret(<<Fn("", <<>>, <<>>)>>)>>)
StmtPool == <<
    <<Empty>>, <<ES(A)>>, <<ES(A), ES(B)>>, <<Dbg>>,
    <<Var(<<VD("a")>>)>>, <<Var(<<VI("a", B)>>)>>, <<Var(<<VI("a", B), VD("c")>>)>>, <<Var(<<VD("a"), VI("b", C)>>)>>,
    <<Var(<<VI("a", Seq2(B, C))>>)>>, <<Var(<<VI("a", Asg("=", B, C))>>)>>, <<Var(<<VI("a", Bin("in", B, C))>>)>>,
    <<Block(<<>>)>>, <<Block(<<ES(A)>>)>>, <<Block(<<ES(A), ES(B)>>)>>, <<Block(<<Block(<<>>)>>)>>, <<Block(<<>>), ES(A)>>,
    <<If(A, ES(B))>>, <<IfE(A, ES(B), ES(C))>>, <<IfE(A, Block(<<ES(B)>>), Block(<<ES(C)>>))>>,
    <<If(A, IfE(B, ES(C), ES(Dd)))>>, <<IfE(A, ES(B), IfE(C, ES(Dd), ES(Ee)))>>, <<IfE(A, IfE(B, ES(C), ES(Dd)), ES(Ee))>>,
    <<If(A, Empty)>>, <<IfE(A, Empty, Empty)>>, <<If(Seq2(A, B), ES(C))>>,
    <<For(<<>>, <<>>, <<>>, Empty)>>, <<For(<<A>>, <<B>>, <<C>>, ES(Dd))>>, <<For(<<Var(<<VI("a", B)>>)>>, <<C>>, <<Dd>>, ES(Ee))>>,
    <<For(<<Var(<<VD("a"), VD("b")>>)>>, <<>>, <<>>, Empty)>>, <<For(<<Seq2(A, B)>>, <<Seq2(C, Dd)>>, <<Seq2(X, Y)>>, Empty)>>,
    <<For(<<>>, <<A>>, <<>>, Empty)>>, <<For(<<>>, <<>>, <<A>>, Empty)>>, <<For(<<Asg("=", A, Num(0))>>, <<Bin("<", A, B)>>, <<Upd("++", FALSE, A)>>, Block(<<>>))>>,
    <<ForIn(A, B, ES(C))>>, <<ForIn(Var(<<VD("a")>>), B, ES(C))>>, <<ForIn(Var(<<VI("a", B)>>), C, ES(Dd))>>,
    <<ForIn(Dot(A, "b"), C, Empty)>>, <<ForIn(Idx(A, B), C, Empty)>>, <<ForIn(A, Seq2(B, C), Empty)>>, <<ForIn(A, Bin("in", B, C), Empty)>>,
    <<ForIn(Idx(A, Bin("in", B, C)), Dd, Empty)>>, <<ForIn(Var(<<VI("a", Cond(B, Bin("in", C, Dd), Ee))>>), X, Empty)>>,
    <<For(<<Cond(A, Bin("in", B, C), Dd)>>, <<>>, <<>>, Empty)>>, <<For(<<Cond(A, B, Bin("in", C, Dd))>>, <<>>, <<>>, Empty)>>,
    <<For(<<Cond(Bin("in", A, B), C, Dd)>>, <<>>, <<>>, Empty)>>,
    <<For(<<Call(A, <<Bin("in", B, C)>>)>>, <<>>, <<>>, Empty)>>, <<For(<<Arr(<<Bin("in", B, C)>>)>>, <<>>, <<>>, Empty)>>,
    <<For(<<Asg("=", A, Fn("", <<>>, <<ES(Bin("in", B, C))>>))>>, <<>>, <<>>, Empty)>>,
    <<For(<<Asg("=", A, Obj(<<PV(K1, Bin("in", B, C))>>))>>, <<>>, <<>>, Empty)>>,
    <<For(<<Bin("<", A, Bin("in", B, C))>>, <<>>, <<>>, Empty)>>, <<For(<<Bin("in", Bin("<", A, B), C)>>, <<>>, <<>>, Empty)>>,
    <<For(<<Un("!", Bin("in", A, B))>>, <<Bin("in", A, B)>>, <<Bin("in", A, B)>>, Empty)>>,
    <<For(<<New(A, <<Bin("in", B, C)>>, TRUE)>>, <<>>, <<>>, Empty)>>, <<For(<<Seq2(A, Bin("in", B, C))>>, <<>>, <<>>, Empty)>>,
    <<For(<<Var(<<VI("a", Bin("in", B, C)), VI("d", Bin("in", X, Y))>>)>>, <<>>, <<>>, Empty)>>,
    <<While(A, ES(B))>>, <<While(A, Block(<<>>))>>, <<While(A, Empty)>>,
    <<DoW(ES(A), B)>>, <<DoW(Block(<<ES(A)>>), B)>>, <<DoW(Empty, A)>>, <<DoW(ES(A), B), ES(C)>>, <<DoW(DoW(ES(A), B), C)>>,
    <<If(A, DoW(ES(B), C))>>, <<IfE(A, DoW(ES(B), C), ES(Dd))>>,
    <<While(A, Brk(""))>>, <<While(A, Cont(""))>>, <<While(A, Block(<<Brk(""), Cont("")>>))>>,
    <<Lab("L", While(A, Block(<<Cont("L")>>)))>>, <<Lab("L", While(A, Brk("L")))>>, <<Lab("L", Block(<<Brk("L")>>))>>,
    <<Lab("L", Lab("M", While(A, Block(<<Cont("L"), Brk("M"), Cont("M")>>))))>>, <<Lab("L", ES(A))>>, <<Lab("L", Empty)>>,
    <<Lab("L", For(<<>>, <<>>, <<>>, Lab("M", DoW(Cont("L"), A))))>>, <<Lab("L", Block(<<>>)), Lab("L", Block(<<>>))>>,
    <<Lab("L", If(A, Brk("L")))>>, <<Lab("a", ES(A))>>, <<Lab("L", ES(Fn("", <<>>, <<Lab("L", Empty)>>)))>>,
    <<DoW(Brk(""), A)>>, <<ForIn(A, B, Cont(""))>>, <<For(<<>>, <<>>, <<>>, Brk(""))>>,
    <<FDecl("f", <<>>, <<>>)>>, <<FDecl("f", <<"a", "b">>, <<Ret(<<>>)>>)>>, <<FDecl("f", <<"a">>, <<Ret(<<A>>)>>)>>,
    <<FDecl("f", <<>>, <<Ret(<<Seq2(A, B)>>)>>)>>, <<FDecl("f", <<>>, <<FDecl("g", <<>>, <<Ret(<<>>)>>), Ret(<<Id("g")>>)>>)>>,
    <<FDecl("f", <<>>, <<If(A, Ret(<<>>)), Ret(<<B>>)>>)>>, <<FDecl("f", <<>>, <<While(A, Ret(<<B>>))>>)>>,
    <<FDecl("f", <<>>, <<>>), ES(Call(Id("f"), <<>>))>>, <<ES(A), FDecl("f", <<>>, <<>>)>>,
    <<Throw(A)>>, <<Throw(Seq2(A, B))>>, <<Throw(New(A, <<B>>, TRUE))>>,
    <<Try(<<ES(A)>>, "e", <<ES(B)>>, TRUE, <<>>, FALSE)>>, <<Try(<<>>, "", <<>>, FALSE, <<>>, TRUE)>>,
    <<Try(<<ES(A)>>, "e", <<ES(B)>>, TRUE, <<ES(C)>>, TRUE)>>, <<Try(<<Throw(A)>>, "e", <<>>, TRUE, <<>>, FALSE)>>,
    <<Try(<<Try(<<>>, "", <<>>, FALSE, <<>>, TRUE)>>, "x", <<>>, TRUE, <<>>, FALSE)>>,
    <<Sw(A, <<>>)>>, <<Sw(A, <<CaseC(B, <<ES(C)>>)>>)>>, <<Sw(A, <<CaseC(B, <<>>), CaseC(C, <<ES(Dd), Brk("")>>), DefC(<<ES(Ee)>>)>>)>>,
    <<Sw(A, <<DefC(<<>>)>>)>>, <<Sw(A, <<CaseC(B, <<>>), DefC(<<ES(C)>>), CaseC(Dd, <<>>)>>)>>, <<Sw(Seq2(A, B), <<CaseC(Seq2(C, Dd), <<>>)>>)>>,
    <<Sw(A, <<CaseC(B, <<Block(<<>>)>>)>>)>>, <<While(A, Sw(B, <<CaseC(C, <<Cont("")>>)>>))>>, <<Sw(A, <<DefC(<<Brk("")>>)>>)>>,
    <<Sw(A, <<CaseC(Cond(B, C, Dd), <<ES(X)>>)>>)>>, <<Sw(A, <<CaseC(Str(<<115>>), <<Lab("L", ES(X))>>)>>)>>,
    <<With(A, ES(B))>>, <<With(A, Block(<<>>))>>, <<With(Seq2(A, B), Empty)>>,
    <<ES(Call(Fn("", <<>>, <<>>), <<>>))>>, <<Var(<<VI("f", Fn("", <<>>, <<>>))>>)>>, <<ES(Asg("=", A, Fn("g", <<"x">>, <<Ret(<<X>>)>>)))>>,
    <<ES(Fn("f", <<>>, <<>>))>>, <<ES(Obj(<<>>))>>, <<ES(Dot(Obj(<<PV(K1, B)>>), "a"))>>, <<ES(Asg("=", Dot(Obj(<<>>), "x"), A))>>,
    <<ES(Bin("+", Fn("", <<>>, <<>>), A))>>, <<ES(Seq2(Obj(<<>>), A))>>, <<ES(Cond(Fn("", <<>>, <<>>), A, B))>>, <<ES(Upd("++", FALSE, Dot(Obj(<<>>), "x")))>>,
    <<ES(New(Fn("", <<>>, <<>>), <<>>, FALSE))>>, <<ES(Un("!", Fn("", <<>>, <<>>)))>>, <<ES(Call(Dot(Fn("", <<>>, <<>>), "call"), <<This>>))>>,
    <<ES(Asg("=", A, Obj(<<PV(K1, B), PV(K2, C)>>)))>>, <<ES(Asg("=", A, Obj(<<PG(K1, <<Ret(<<B>>)>>), PS(K1, "v", <<ES(C)>>)>>)))>>,
    <<ES(Asg("=", A, Obj(<<PV(<<103, 101, 116>>, B), PV(<<115, 101, 116>>, C)>>)))>>,
    <<ES(Asg("=", A, Obj(<<PG(<<103, 101, 116>>, <<>>), PS(<<115, 101, 116>>, "get", <<>>)>>)))>>,
    <<ES(Asg("=", A, Obj(<<PV(K1, B), PV(K1, C)>>)))>>, <<ES(Asg("=", A, Obj(<<PV(K1, Seq2(B, C))>>)))>>,
    <<ES(Asg("=", A, Arr(<<>>)))>>, <<ES(Asg("=", A, Arr(<<B>>)))>>, <<ES(Asg("=", A, Arr(<<B, C>>)))>>, <<ES(Asg("=", A, Arr(<<Hole>>)))>>,
    <<ES(Asg("=", A, Arr(<<Hole, Hole>>)))>>, <<ES(Asg("=", A, Arr(<<B, Hole>>)))>>, <<ES(Asg("=", A, Arr(<<Hole, B>>)))>>,
    <<ES(Asg("=", A, Arr(<<B, Hole, C>>)))>>, <<ES(Asg("=", A, Arr(<<B, Hole, Hole>>)))>>, <<ES(Asg("=", A, Arr(<<Seq2(B, C), Asg("=", X, Y)>>)))>>,
    <<ES(Asg("=", A, Re(<<120>>, <<>>)))>>, <<ES(Call(Dot(Re(<<120>>, <<103>>), "test"), <<A>>))>>, <<ES(Bin("/", Bin("/", A, B), C))>>,
    <<ES(Bin("/", Re(<<120>>, <<>>), Re(<<121>>, <<>>)))>>, <<ES(Asg("/", A, Re(<<61>>, <<>>)))>>, <<ES(Asg("/", A, Bin("/", B, C)))>>,
    <<If(A, ES(Dot(Re(<<120>>, <<>>), "y")))>>, <<Block(<<>>), ES(Dot(Re(<<120>>, <<103>>), "y"))>>, <<ES(Bin("/", Upd("++", FALSE, A), B))>>,
    <<ES(Bin("/", Call(A, <<>>), B))>>, <<ES(Bin("/", Idx(A, B), C))>>, <<ES(Bin("/", Num(1), A))>>, <<ES(Bin("/", This, A))>>,
    <<ES(Un("typeof", Re(<<120>>, <<>>)))>>, <<ES(Bin("+", A, Re(<<120>>, <<>>)))>>, <<ES(Cond(A, Re(<<120>>, <<>>), Re(<<121>>, <<>>)))>>,
    <<ES(Call(A, <<Re(<<120>>, <<>>), Re(<<121>>, <<103>>)>>))>>, <<Ret0>>,
    <<ES(New(New(A, <<>>, TRUE), <<>>, TRUE))>>, <<ES(New(New(A, <<>>, FALSE), <<>>, FALSE))>>, <<ES(New(New(A, <<>>, FALSE), <<>>, TRUE))>>,
    <<ES(New(New(A, <<>>, TRUE), <<>>, FALSE))>>, <<ES(Call(New(A, <<>>, TRUE), <<>>))>>, <<ES(Call(New(A, <<>>, FALSE), <<>>))>>,
    <<ES(New(Call(A, <<>>), <<>>, TRUE))>>, <<ES(New(Dot(Call(A, <<>>), "b"), <<>>, FALSE))>>, <<ES(New(Dot(A, "b"), <<C>>, TRUE))>>,
    <<ES(Dot(New(Dot(A, "b"), <<>>, TRUE), "c"))>>, <<ES(Dot(New(A, <<>>, FALSE), "b"))>>, <<ES(Idx(New(A, <<>>, FALSE), B))>>,
    <<ES(Call(Dot(Call(Dot(A, "b"), <<>>), "c"), <<>>))>>, <<ES(Idx(Idx(A, B), C))>>, <<ES(Call(Call(A, <<B>>), <<C>>))>>,
    <<ES(Un("-", Un("-", A)))>>, <<ES(Un("+", Un("+", A)))>>, <<ES(Un("-", Upd("--", TRUE, A)))>>, <<ES(Un("+", Upd("++", TRUE, A)))>>,
    <<ES(Bin("-", A, Un("-", B)))>>, <<ES(Bin("+", A, Un("+", B)))>>, <<ES(Bin("+", Upd("++", FALSE, A), Upd("++", TRUE, B)))>>,
    <<ES(Bin("-", Upd("--", FALSE, A), Upd("--", TRUE, B)))>>, <<ES(Un("typeof", Un("typeof", A)))>>, <<ES(Un("delete", Dot(A, "b")))>>,
    <<ES(Un("void", Num(0)))>>, <<ES(Un("!", Un("~", A)))>>, <<ES(Dot(Num(1), "x"))>>, <<ES(Idx(Num(1), A))>>, <<ES(Dot(Str(<<120>>), "length"))>>,
    <<ES(Asg("=", A, Asg("=", B, C)))>>, <<ES(Asg("+", A, Asg("-", B, C)))>>, <<ES(Cond(A, B, Cond(C, Dd, Ee)))>>, <<ES(Cond(Cond(A, B, C), Dd, Ee))>>,
    <<ES(Cond(A, Cond(B, C, Dd), Ee))>>, <<ES(Cond(A, Asg("=", B, C), Asg("=", Dd, Ee)))>>, <<ES(Asg("=", A, Cond(B, C, Dd)))>>,
    <<ES(Seq2(Seq2(A, B), C))>>, <<ES(Seq2(A, Seq2(B, C)))>>, <<ES(Call(A, <<Seq2(B, C)>>))>>, <<ES(Call(A, <<B, C, Dd>>))>>,
    <<ES(New(A, <<B, C>>, TRUE))>>, <<ES(Bin("<", Bin("<", A, B), C))>>, <<ES(Bin("<", A, Bin("<", B, C)))>>,
    <<ES(Bin("in", Bin("instanceof", A, B), C))>>, <<ES(Bin(">=", A, Bin("<=", B, C)))>>,
    <<ES(Dot(A, "if"))>>, <<ES(Dot(Dot(A, "class"), "b"))>>, <<ES(Dot(A, "null"))>>, <<ES(Call(Dot(A, "delete"), <<>>))>>
  >>

(* every simple statement as the body of every compound form *)
SimpleStmts == <<ES(X), Var(<<VI("x", Y)>>), Empty, Block(<<>>), Block(<<ES(X)>>), IfE(X, ES(Y), ES(Z)), While(X, ES(Y)),
                 DoW(ES(X), Y), For(<<>>, <<>>, <<>>, ES(X)), ForIn(X, Y, ES(Z)), Lab("M", ES(X)), With(X, ES(Y)),
                 Try(<<ES(X)>>, "e", <<>>, TRUE, <<>>, FALSE), Sw(X, <<CaseC(Y, <<ES(Z)>>)>>), Throw(X), Dbg,
                 ES(Call(Fn("", <<>>, <<>>), <<>>)), ES(Asg("=", X, Obj(<<>>))), If(X, ES(Y))>>
Wrappers == <<"if", "ifelse1", "ifelse2", "while", "dowhile", "for", "forin", "label", "with", "block", "fnbody", "case", "try",
              "catch", "finally", "default", "fexpr", "after", "before">>
Wrap(w, s) ==
    CASE w = "if" -> <<If(A, s)>>
      [] w = "ifelse1" -> <<IfE(A, s, ES(B))>>
      [] w = "ifelse2" -> <<IfE(A, ES(B), s)>>
      [] w = "while" -> <<While(A, s)>>
      [] w = "dowhile" -> <<DoW(s, A)>>
      [] w = "for" -> <<For(<<A>>, <<B>>, <<C>>, s)>>
      [] w = "forin" -> <<ForIn(A, B, s)>>
      [] w = "label" -> <<Lab("L", s)>>
      [] w = "with" -> <<With(A, s)>>
      [] w = "block" -> <<Block(<<s, s>>)>>
      [] w = "fnbody" -> <<FDecl("f", <<>>, <<s, Ret(<<A>>)>>)>>
      [] w = "case" -> <<Sw(A, <<CaseC(B, <<s, Brk("")>>)>>)>>
      [] w = "default" -> <<Sw(A, <<DefC(<<s>>), CaseC(B, <<>>)>>)>>
      [] w = "try" -> <<Try(<<s>>, "", <<>>, FALSE, <<>>, TRUE)>>
      [] w = "catch" -> <<Try(<<>>, "e", <<s>>, TRUE, <<>>, FALSE)>>
      [] w = "finally" -> <<Try(<<>>, "", <<>>, FALSE, <<s>>, TRUE)>>
      [] w = "fexpr" -> <<ES(Asg("=", A, Fn("", <<>>, <<s>>)))>>
      [] w = "after" -> <<s, ES(A)>>
      [] w = "before" -> <<ES(A), s>>
(* an if without else cannot be the then-branch of an if with else (dangling else binds to the nearest if) *)
RECURSIVE EndsOpenIf(_)
EndsOpenIf(s) ==
    CASE s.k = "if" -> s.b = <<>> \/ EndsOpenIf(s.b[1])
      [] s.k \in {"while", "for", "forin", "with", "label"} -> EndsOpenIf(s.body)
      [] OTHER -> FALSE
NestOK(w, s) == ~(w = "ifelse1" /\ EndsOpenIf(s))

-----------------------------------------------------------------------------
(* hand-written token sequences: programs that exist only because of         *)
(* automatic semicolon insertion, restricted productions, regular-expression *)
(* versus division; each is rendered with a line terminator in every gap     *)
NL(tk) == [tk EXCEPT !.nl = TRUE]     \* only documents intent; flags are set by the rendering
FnWrap(T) == <<TK("function"), TI("f"), TP("("), TP(")"), TP("{")>> \o T \o <<TP("}")>>
SeqPool == <<
    <<TI("a"), TP("++"), TI("b")>>, <<TI("a"), TP("--"), TI("b")>>, <<TI("a"), TP("++"), TP("++"), TI("b")>>,
    <<TI("a"), TI("b")>>, <<TI("a"), TP("="), TI("b"), TI("c")>>, <<TI("a"), TP("="), TI("b"), TP("++"), TI("c")>>,
    <<TI("a"), TP("="), TI("b"), TP("("), TI("c"), TP(")")>>, <<TI("a"), TP("="), TI("b"), TP("["), TI("c"), TP("]")>>,
    <<TI("a"), TP("="), TI("b"), TP("+"), TI("c")>>, <<TI("a"), TP("="), TI("b"), TP("-"), TI("c")>>,
    <<TI("a"), TP("="), TI("b"), TP("/"), TI("c"), TP("/"), TI("g")>>, <<TI("a"), TP("="), TI("b"), TRe(<<99>>, <<103>>)>>,
    <<TI("a"), TP("="), TI("b"), TP("."), TI("c")>>, <<TI("a"), TP("="), TI("b"), TK("in"), TI("c")>>,
    <<TI("a"), TP("="), TI("b"), TK("instanceof"), TI("c")>>, <<TI("a"), TP("="), TI("b"), TP("?"), TI("c"), TP(":"), TI("d")>>,
    <<TI("a"), TP("="), TI("b"), TP(","), TI("c")>>, <<TI("a"), TP("="), TK("function"), TP("("), TP(")"), TP("{"), TP("}"), TP("("), TP(")")>>,
    <<TK("var"), TI("a"), TK("var"), TI("b")>>, <<TK("var"), TI("a"), TP("="), TI("b"), TK("var"), TI("c")>>, <<TK("var"), TI("a"), TI("b")>>,
    <<TK("var"), TI("a"), TP("="), TNum(<<49>>), TP("("), TI("b"), TP(")")>>,
    FnWrap(<<TK("return"), TI("a")>>), FnWrap(<<TK("return"), TI("a"), TP("+"), TI("b")>>), FnWrap(<<TK("return"), TP(";")>>),
    FnWrap(<<TK("return")>>), FnWrap(<<TK("return"), TI("a"), TI("b")>>), FnWrap(<<TK("return"), TP("("), TI("a"), TP(")")>>),
    FnWrap(<<TK("return"), TRe(<<120>>, <<>>)>>), FnWrap(<<TK("return"), TP("{"), TP("}")>>), FnWrap(<<TK("return"), TK("function"), TP("("), TP(")"), TP("{"), TP("}")>>),
    FnWrap(<<TK("return"), TP("-"), TI("a")>>), FnWrap(<<TK("return"), TP("++"), TI("a")>>), FnWrap(<<TK("if"), TP("("), TI("a"), TP(")"), TK("return"), TK("else"), TI("b")>>),
    FnWrap(<<TK("return"), TI("a"), TP("}"), TK("function"), TI("g"), TP("("), TP(")"), TP("{")>>),
    <<TK("throw"), TI("a")>>, <<TK("throw"), TI("a"), TI("b")>>, <<TK("throw"), TI("a"), TP("+"), TI("b")>>, <<TK("throw"), TP(";")>>, <<TK("throw")>>,
    <<TK("throw"), TK("new"), TI("a")>>,
    <<TI("L"), TP(":"), TK("while"), TP("("), TI("a"), TP(")"), TK("break"), TI("L")>>,
    <<TI("L"), TP(":"), TK("while"), TP("("), TI("a"), TP(")"), TK("continue"), TI("L")>>,
    <<TI("L"), TP(":"), TK("while"), TP("("), TI("a"), TP(")"), TP("{"), TK("break"), TI("L"), TP("}")>>,
    <<TI("L"), TP(":"), TK("while"), TP("("), TI("a"), TP(")"), TP("{"), TK("continue"), TI("L"), TI("b"), TP("}")>>,
    <<TK("while"), TP("("), TI("a"), TP(")"), TK("break"), TI("b")>>, <<TK("while"), TP("("), TI("a"), TP(")"), TK("continue"), TI("b")>>,
    <<TK("while"), TP("("), TI("a"), TP(")"), TP("{"), TK("break"), TI("b"), TP("}")>>,
    <<TK("while"), TP("("), TI("a"), TP(")"), TK("break"), TK("while"), TP("("), TI("b"), TP(")"), TK("continue")>>,
    <<TK("if"), TP("("), TI("a"), TP(")"), TI("b"), TK("else"), TI("c")>>, <<TK("if"), TP("("), TI("a"), TP(")"), TK("else"), TI("c")>>,
    <<TK("if"), TP("("), TI("a"), TP(")"), TI("b"), TP(";"), TK("else"), TI("c")>>, <<TK("if"), TP("("), TI("a"), TP(")"), TP("{"), TP("}"), TK("else"), TI("c")>>,
    <<TK("if"), TP("("), TI("a"), TP(")")>>, <<TK("if"), TP("("), TI("a"), TP(")"), TP(";")>>, <<TK("while"), TP("("), TI("a"), TP(")")>>,
    <<TK("do"), TI("a"), TK("while"), TP("("), TI("b"), TP(")")>>, <<TK("do"), TI("a"), TP(";"), TK("while"), TP("("), TI("b"), TP(")"), TI("c")>>,
    <<TK("do"), TI("a"), TP(";"), TK("while"), TP("("), TI("b"), TP(")"), TP(";"), TI("c")>>, <<TK("do"), TP(";"), TK("while"), TP("("), TI("b"), TP(")"), TK("do"), TP(";"), TK("while"), TP("("), TI("c"), TP(")")>>,
    <<TK("do"), TP("{"), TP("}"), TK("while"), TP("("), TI("b"), TP(")"), TP("{"), TP("}")>>, <<TK("if"), TP("("), TI("a"), TP(")"), TK("do"), TP(";"), TK("while"), TP("("), TI("b"), TP(")"), TK("else"), TI("c")>>,
    <<TK("do"), TK("do"), TP(";"), TK("while"), TP("("), TI("a"), TP(")"), TK("while"), TP("("), TI("b"), TP(")")>>,
    <<TK("for"), TP("("), TI("a"), TP(";"), TI("b"), TP(")"), TI("c")>>, <<TK("for"), TP("("), TI("a"), TP(";"), TI("b"), TP(";"), TP(")"), TI("c")>>,
    <<TK("for"), TP("("), TP(";"), TP(";"), TP(")")>>, <<TK("for"), TP("("), TI("a"), TI("b"), TP(";"), TP(";"), TP(")"), TP(";")>>,
    <<TP("{"), TI("a"), TI("b"), TP("}")>>, <<TP("{"), TI("a"), TP("}"), TI("b")>>, <<TP("{"), TI("a"), TP("}"), TP("{"), TI("b"), TP("}")>>,
    <<TP("{"), TNum(<<49>>), TNum(<<50>>), TP("}"), TNum(<<51>>)>>, <<TI("a"), TP(";"), TP(";"), TI("b")>>, <<TP(";")>>, <<TI("a"), TP(";")>>,
    <<TI("a"), TP("("), TI("b"), TP(")"), TI("c"), TP("("), TI("d"), TP(")")>>, <<TI("a"), TP("="), TI("b"), TP("++"), TP("++"), TI("c")>>,
    <<TI("a"), TP("="), TI("b"), TP("--"), TI("c")>>, <<TI("a"), TP("++"), TP("--"), TI("b")>>, <<TP("++"), TI("a"), TP("++")>>, <<TP("++"), TI("a"), TP("--"), TI("b")>>,
    <<TI("a"), TP("="), TNum(<<49>>), TNum(<<50>>)>>, <<TI("a"), TP("="), TStr(<<34, 120, 34>>), TStr(<<34, 121, 34>>)>>, <<TI("a"), TK("this")>>, <<TK("this"), TI("a")>>,
    <<TK("debugger"), TI("a")>>, <<TK("debugger"), TK("debugger")>>, <<TI("a"), TK("debugger")>>,
    <<TK("switch"), TP("("), TI("a"), TP(")"), TP("{"), TK("case"), TI("b"), TP(":"), TI("c"), TI("d"), TK("case"), TI("e"), TP(":"), TP("}")>>,
    <<TK("try"), TP("{"), TI("a"), TP("}"), TK("catch"), TP("("), TI("e"), TP(")"), TP("{"), TI("b"), TP("}"), TI("c")>>,
    <<TK("function"), TI("f"), TP("("), TP(")"), TP("{"), TP("}"), TI("a")>>, <<TK("function"), TI("f"), TP("("), TP(")"), TP("{"), TP("}"), TP("("), TI("a"), TP(")")>>,
    <<TI("a"), TP("="), TK("function"), TP("("), TP(")"), TP("{"), TP("}"), TI("b")>>,
    <<TP("{"), TP("}"), TRe(<<120>>, <<103>>), TP("."), TI("y")>>, <<TI("a"), TP("="), TP("{"), TP("}"), TP("/"), TI("b"), TP("/"), TI("g")>>,
    <<TK("if"), TP("("), TI("a"), TP(")"), TRe(<<120>>, <<>>), TP("."), TI("y")>>, <<TI("a"), TP("++"), TP("/"), TI("b"), TP("/"), TI("g")>>,
    <<TP("("), TI("a"), TP(")"), TP("/"), TI("b"), TP("/"), TI("g")>>, <<TI("a"), TP("["), TI("i"), TP("]"), TP("/"), TI("b"), TP("/"), TI("g")>>,
    <<TI("a"), TP("="), TRe(<<120>>, <<>>), TI("g")>>, <<TI("a"), TP("="), TRe(<<120>>, <<>>), TI("g"), TP(";"), TI("b")>>, <<TI("a"), TP("="), TRe(<<120>>, <<103>>), TI("i")>>,
    <<TI("a"), TP("="), TRe(<<120>>, <<>>), TP("."), TI("y")>>, <<TI("a"), TP("="), TRe(<<120>>, <<>>), TK("in"), TI("b")>>,
    <<TI("a"), TP("="), TRe(<<120>>, <<>>), TP("/"), TI("b")>>, <<TI("a"), TP("="), TRe(<<120>>, <<>>), TK("instanceof"), TI("b")>>,
    <<TI("a"), TP("?"), TI("b"), TP(":"), TI("c"), TI("d")>>, <<TK("new"), TI("a"), TI("b")>>, <<TK("new"), TI("a"), TP("("), TP(")"), TI("b")>>, <<TK("typeof"), TI("a"), TI("b")>>,
    <<TK("var"), TI("a"), TP(","), TI("b"), TI("c")>>, <<TK("var"), TI("a"), TP("="), TI("b"), TP(","), TI("c"), TP("="), TI("d"), TI("e")>>,
    <<TK("with"), TP("("), TI("a"), TP(")"), TI("b"), TI("c")>>, <<TI("L"), TP(":"), TI("a"), TI("b")>>, <<TI("L"), TP(":")>>
  >>

-----------------------------------------------------------------------------
(* literal cases: x = LITERAL ;  and  x = { LITERAL : 1 } ;                   *)
LitProgram(tk) == <<TI("x"), TP("="), tk, TP(";")>>
KeyProgram(tk) == <<TI("x"), TP("="), TP("{"), tk, TP(":"), TNum(<<49>>), TP("}"), TP(";")>>
LitToks == [j \in 1..Len(S!NumLitsOK) |-> TNum(S!NumLitsOK[j])] \o [j \in 1..Len(S!StrLitsOK) |-> TStr(S!StrLitsOK[j])]
           \o [j \in 1..Len(S!NumLitsBad) |-> TNum(S!NumLitsBad[j])] \o [j \in 1..Len(S!StrLitsBad) |-> TStr(S!StrLitsBad[j])]
KeyToks == [j \in 1..Len(S!NumLitsKey) |-> TNum(S!NumLitsKey[j])] \o [j \in 1..Len(S!StrLitsOK) |-> TStr(S!StrLitsOK[j])]
           \o [j \in 1..Len(S!NumLitsBad) |-> TNum(S!NumLitsBad[j])]

(* long numeric literals of every radix form (values computed by NumLitMV)   *)
LongToks == [j \in 1..Len(S!NumLitsLong) |-> TNum(S!NumLitsLong[j])]

(* 11.1.5 / 11.2.1 / 7.6: a PropertyName and the name after "." are          *)
(* IdentifierNames: every reserved word, future reserved word and literal    *)
(* word, and get / set themselves, name data properties and accessors        *)
RwSeq == SetToSeq(S!KeywordNames) \o <<"get", "set", "a">>
WordTok(w) == IF w \in S!KeywordNames THEN TK(w) ELSE TI(w)
FnTail(ps) == <<TP("(")>> \o ps \o <<TP(")"), TP("{"), TP("}")>>
RwPrograms(w) ==
    LET W == WordTok(w) IN
    << <<TI("x"), TP("="), TP("{"), W, TP(":"), TNum(<<49>>), TP("}"), TP(";")>>,
       <<TI("x"), TP("="), TP("{"), TI("get"), W>> \o FnTail(<<>>) \o <<TP("}"), TP(";")>>,
       <<TI("x"), TP("="), TP("{"), TI("set"), W>> \o FnTail(<<TI("v")>>) \o <<TP("}"), TP(";")>>,
       <<TI("x"), TP("="), TP("{"), TI("get"), W>> \o FnTail(<<>>) \o <<TP(","), TI("set"), W>> \o FnTail(<<TI("v")>>) \o <<TP(","), TP("}"), TP(";")>>,
       <<TI("x"), TP("="), TP("{"), TI("get"), TP(":"), TNum(<<49>>), TP(","), TI("get"), W>> \o FnTail(<<>>)
           \o <<TP(","), TI("set"), TP(":"), TNum(<<50>>), TP(","), TI("set"), W>> \o FnTail(<<TI("v")>>) \o <<TP("}"), TP(";")>>,
       <<TI("x"), TP("="), TP("{"), TI("b"), TP(":"), TNum(<<49>>), TP(","), W, TP(":"), TP("{"), W, TP(":"), TNum(<<50>>), TP("}"), TP("}"), TP(";")>>,
       <<TI("a"), TP("."), W, TP(";")>>,
       <<TI("a"), TP("."), W, TP("="), TI("a"), TP("."), W, TP("("), TP(")"), TP("."), W, TP(";")>>,
       <<TK("new"), TI("a"), TP("."), W, TP(";")>>,
       <<TI("a"), TP("."), W, TP("++"), TP(";")>> >>
NRwP == 10

(* lexical cases: source text written out, with its tokenisation by the      *)
(* longest-match rule of clause 7 (and the goal symbols of 7: a "/" starts a *)
(* RegularExpressionLiteral exactly where the syntactic grammar allows one)  *)
TBad == TNum(<<48, 56>>)        \* stands for any source character that starts no token (7), or an unterminated comment
LexCase(name, T) == [src |-> U(name), toks |-> T, name |-> name, alt |-> <<>>]
LexCaseAlt(name, T, d, T2) == [src |-> U(name), toks |-> T, name |-> name, alt |-> <<[d |-> d, toks |-> T2]>>]
RX(b) == TRe(b, <<>>)
LexPool == <<
    LexCase("a+++b", <<TI("a"), TP("++"), TP("+"), TI("b")>>), LexCase("a---b", <<TI("a"), TP("--"), TP("-"), TI("b")>>),
    LexCase("a+ +b", <<TI("a"), TP("+"), TP("+"), TI("b")>>), LexCase("a++ +b", <<TI("a"), TP("++"), TP("+"), TI("b")>>),
    LexCase("a+ ++b", <<TI("a"), TP("+"), TP("++"), TI("b")>>), LexCase("a- -b", <<TI("a"), TP("-"), TP("-"), TI("b")>>),
    LexCase("a-- -b", <<TI("a"), TP("--"), TP("-"), TI("b")>>), LexCase("a<<b", <<TI("a"), TP("<<"), TI("b")>>),
    LexCase("a>>>=b", <<TI("a"), TP(">>>="), TI("b")>>), LexCase("a>>>b", <<TI("a"), TP(">>>"), TI("b")>>), LexCase("a>>=b", <<TI("a"), TP(">>="), TI("b")>>),
    LexCase("a!==b", <<TI("a"), TP("!=="), TI("b")>>), LexCase("a===b", <<TI("a"), TP("==="), TI("b")>>), LexCase("a&&b", <<TI("a"), TP("&&"), TI("b")>>),
    LexCase("a||b", <<TI("a"), TP("||"), TI("b")>>), LexCase("a&b|c^d", <<TI("a"), TP("&"), TI("b"), TP("|"), TI("c"), TP("^"), TI("d")>>),
    LexCase("a<=b>=c", <<TI("a"), TP("<="), TI("b"), TP(">="), TI("c")>>), LexCase("a!=!b", <<TI("a"), TP("!="), TP("!"), TI("b")>>),
    LexCase("a=-b", <<TI("a"), TP("="), TP("-"), TI("b")>>), LexCase("a=+b", <<TI("a"), TP("="), TP("+"), TI("b")>>), LexCase("a=~b", <<TI("a"), TP("="), TP("~"), TI("b")>>),
    LexCase("a=!b", <<TI("a"), TP("="), TP("!"), TI("b")>>), LexCase("a-=-b", <<TI("a"), TP("-="), TP("-"), TI("b")>>),
    LexCase("a-->b", <<TI("a"), TP("--"), TP(">"), TI("b")>>), LexCase("a<!--b", <<TI("a"), TP("<"), TP("!"), TP("--"), TI("b")>>),
    LexCase("x=/=/", <<TI("x"), TP("="), RX(<<61>>)>>),
    LexCase("x=/a/g.test(y)", <<TI("x"), TP("="), TRe(<<97>>, <<103>>), TP("."), TI("test"), TP("("), TI("y"), TP(")")>>),
    LexCase("a/b/c", <<TI("a"), TP("/"), TI("b"), TP("/"), TI("c")>>),
    LexCase("x=a/*c*//b/g", <<TI("x"), TP("="), TI("a"), TP("/"), TI("b"), TP("/"), TI("g")>>),
    LexCase("x=a//c_nl_/b/g", <<TI("x"), TP("="), TI("a"), NL(TP("/")), TI("b"), TP("/"), TI("g")>>),
    LexCase("x=/[/]/", <<TI("x"), TP("="), RX(<<91, 47, 93>>)>>), LexCase("x=/\\//", <<TI("x"), TP("="), RX(<<92, 47>>)>>),
    LexCase("x=/a/ /b/", <<TI("x"), TP("="), RX(<<97>>), TP("/"), TI("b"), TP("/")>>), LexCase("x=/[\\]/]/", <<TI("x"), TP("="), RX(<<91, 92, 93, 47, 93>>)>>),
    LexCase("x=a++/b/c", <<TI("x"), TP("="), TI("a"), TP("++"), TP("/"), TI("b"), TP("/"), TI("c")>>),
    LexCase("x=(a)/b/c", <<TI("x"), TP("="), TP("("), TI("a"), TP(")"), TP("/"), TI("b"), TP("/"), TI("c")>>),
    LexCase("x=a[0]/b/c", <<TI("x"), TP("="), TI("a"), TP("["), TNum(<<48>>), TP("]"), TP("/"), TI("b"), TP("/"), TI("c")>>),
    LexCase("x=1/b/c", <<TI("x"), TP("="), TNum(<<49>>), TP("/"), TI("b"), TP("/"), TI("c")>>),
    LexCase("x=this/b/c", <<TI("x"), TP("="), TK("this"), TP("/"), TI("b"), TP("/"), TI("c")>>),
    LexCase("x=typeof/b/g", <<TI("x"), TP("="), TK("typeof"), TRe(<<98>>, <<103>>)>>), LexCase("x=void/b/", <<TI("x"), TP("="), TK("void"), RX(<<98>>)>>),
    LexCase("x=y+/b/g", <<TI("x"), TP("="), TI("y"), TP("+"), TRe(<<98>>, <<103>>)>>), LexCase("x=[/b/g]", <<TI("x"), TP("="), TP("["), TRe(<<98>>, <<103>>), TP("]")>>),
    LexCase("x={a:/b/g}", <<TI("x"), TP("="), TP("{"), TI("a"), TP(":"), TRe(<<98>>, <<103>>), TP("}")>>),
    LexCase("if(a)/b/.test(c)", <<TK("if"), TP("("), TI("a"), TP(")"), RX(<<98>>), TP("."), TI("test"), TP("("), TI("c"), TP(")")>>),
    LexCase("{}/b/g", <<TP("{"), TP("}"), TRe(<<98>>, <<103>>)>>),
    LexCase("x=y?/b/:/c/", <<TI("x"), TP("="), TI("y"), TP("?"), RX(<<98>>), TP(":"), RX(<<99>>)>>),
    LexCase("f(/b/,/c/)", <<TI("f"), TP("("), RX(<<98>>), TP(","), RX(<<99>>), TP(")")>>),
    LexCase("a_nl_/b/g", <<TI("a"), NL(TP("/")), TI("b"), TP("/"), TI("g")>>),
    LexCase("x=/b/_nl_g", <<TI("x"), TP("="), RX(<<98>>), NL(TI("g"))>>),
    LexCase("x=/b/ g", <<TI("x"), TP("="), RX(<<98>>), TI("g")>>),
    LexCase("x=/b/gg", <<TI("x"), TP("="), TRe(<<98>>, <<103, 103>>)>>), LexCase("x=/b/x", <<TI("x"), TP("="), TRe(<<98>>, <<120>>)>>),
    LexCase("x=/b/gim", <<TI("x"), TP("="), TRe(<<98>>, <<103, 105, 109>>)>>),
    LexCase("1..x", <<TNum(<<49, 46>>), TP("."), TI("x")>>), LexCase("1.5.x", <<TNum(<<49, 46, 53>>), TP("."), TI("x")>>),
    LexCase("0x1.x", <<TNum(<<48, 120, 49>>), TP("."), TI("x")>>), LexCase(".5.x", <<TNum(<<46, 53>>), TP("."), TI("x")>>),
    LexCase("1 .x", <<TNum(<<49>>), TP("."), TI("x")>>), LexCase("1.x", <<TNum(<<49, 46, 120>>)>>), LexCase("1.e1.x", <<TNum(<<49, 46, 101, 49>>), TP("."), TI("x")>>),
    LexCase("01.x", <<TNum(<<48, 49>>), TP("."), TI("x")>>),
    LexCase("a.if", <<TI("a"), TP("."), TK("if")>>), LexCase("a.class.b", <<TI("a"), TP("."), TK("class"), TP("."), TI("b")>>),
    LexCase("x={if:1,class:2,null:3}", <<TI("x"), TP("="), TP("{"), TK("if"), TP(":"), TNum(<<49>>), TP(","), TK("class"), TP(":"), TNum(<<50>>), TP(","), TK("null"), TP(":"), TNum(<<51>>), TP("}")>>),
    LexCase("a.true", <<TI("a"), TP("."), TK("true")>>),
    LexCase("\\u0061", <<TI("a")>>), LexCase("a\\u0062c", <<TI("abc"), TP("="), TNum(<<49>>)>>),
    LexCase("x.\\u0061", <<TI("x"), TP("."), TI("a")>>),
    LexCase("eacute", <<TI("\\u00E9"), TP("="), TNum(<<49>>)>>), LexCase("aeacute", <<TI("a\\u00E9"), TP("."), TI("b\\u00E9")>>),
    LexCaseAlt("nel", <<TI("a"), TBad, TP("+"), TI("b")>>, "DP20_nel_white_space", <<TI("a"), TP("+"), TI("b")>>),
    LexCaseAlt("nel2", <<TI("a"), TP("+"), TBad, TI("b")>>, "DP20_nel_white_space", <<TI("a"), TP("+"), TI("b")>>),
    LexCaseAlt("a&^=b", <<TI("a"), TP("&"), TP("^="), TI("b")>>, "DP19_and_not_assign_token", <<TI("a"), TP("&^="), TI("b")>>),
    LexCase("a&^b", <<TI("a"), TP("&"), TP("^"), TI("b")>>),
    LexCase("x={1.0:a}", <<TI("x"), TP("="), TP("{"), TNum(<<49, 46, 48>>), TP(":"), TI("a"), TP("}")>>),
    LexCase("x={0x10:a}", <<TI("x"), TP("="), TP("{"), TNum(<<48, 120, 49, 48>>), TP(":"), TI("a"), TP("}")>>),
    LexCase("x={1e3:a}", <<TI("x"), TP("="), TP("{"), TNum(<<49, 101, 51>>), TP(":"), TI("a"), TP("}")>>),
    LexCase("x={010:a}", <<TI("x"), TP("="), TP("{"), TNum(<<48, 49, 48>>), TP(":"), TI("a"), TP("}")>>),
    LexCase("x={.5:a}", <<TI("x"), TP("="), TP("{"), TNum(<<46, 53>>), TP(":"), TI("a"), TP("}")>>),
    LexCase("x={1:a}", <<TI("x"), TP("="), TP("{"), TNum(<<49>>), TP(":"), TI("a"), TP("}")>>),
    LexCase("x={1e21:a}", <<TI("x"), TP("="), TP("{"), TNum(<<49, 101, 50, 49>>), TP(":"), TI("a"), TP("}")>>),
    LexCase("x={0.0000001:a}", <<TI("x"), TP("="), TP("{"), TNum(<<48, 46, 48, 48, 48, 48, 48, 48, 49>>), TP(":"), TI("a"), TP("}")>>),
    LexCase("bom", <<TI("a")>>), LexCase("a;_cle", <<TI("a"), TP(";")>>), LexCase("unterminated_comment", <<TI("a"), TBad>>),
    LexCase("comment_only", <<>>), LexCase("empty", <<>>), LexCase("ws_only", <<>>),
    LexCase("html_close", <<TI("a"), NL(TP("--")), TP(">"), TI("b")>>)
  >>

-----------------------------------------------------------------------------
(* renderings of a token sequence *)
NNL == Len(S!NonNLSeps)
NLK == Len(S!NLSeps)
AllSep(n, s) == [i \in 1..(n + 1) |-> IF i = 1 \/ i = n + 1 THEN "" ELSE s]
MixSeps(n, k) == [i \in 1..(n + 1) |-> S!NonNLSeps[((i * k + Salt + k) % NNL) + 1]]
NLAt(n, g) == [i \in 1..(n + 1) |-> IF i = g THEN S!NLSeps[((g + Salt) % NLK) + 1] ELSE IF i = 1 \/ i = n + 1 THEN "" ELSE "sp"]
(* a line terminator in every gap; stride k: gap i has kind i*k, so over k \in 1..NLK every ordered *)
(* pair of kinds (CR then LF, LF then CR, the same kind twice, ...) is adjacent around a token        *)
NLAll(n, k) == [i \in 1..(n + 1) |-> IF i = 1 THEN "" ELSE S!NLSeps[((i * k + Salt) % NLK) + 1]]

Out(r) == IF r.c = "accept" THEN r ELSE [c |-> r.c, prog |-> <<>>]
(* a rendering: token sequence + separators; must: this rendering has to give the tree prog *)
Spec0(fam, tag, T, seps0, must, prog) == [fam |-> fam, tag |-> tag, T |-> T, seps |-> seps0, must |-> must, prog |-> prog]
(* Classify is applied at this one place (TLC's level analysis walks every textual call path) *)
Case(sp) ==
    LET T == sp.T
        seps == S!FixSeps(T, sp.seps)
        es == Out(S!Classify(S!WithNL(T, seps)))
        el == Out(L!Classify(L!WithNL(T, seps)))
        bug == IF sp.must /\ ~(es.c = "accept" /\ es.prog = sp.prog) THEN "round trip: ParseProgram(Toks(tree)) # tree" ELSE ""
    IN  [fam |-> sp.fam, tag |-> sp.tag, src |-> S!Src(T, seps), exp |-> es, dev |-> IF el = es THEN <<>> ELSE <<el>>, bug |-> bug]

DropAt(T, j) == SubSeq(T, 1, j - 1) \o SubSeq(T, j + 1, Len(T))
SemiIdx(T) == {j \in 1..Len(T) : S!IsP(T[j], ";")}

(* all cases of a program given as a tree *)
TreeCases(fam, prog, full) ==
    LET T == S!ToksProgram(prog, 0)
        n == Len(T)
        base == <<Spec0(fam, "sp", T, AllSep(n, "sp"), TRUE, prog), Spec0(fam, "min", T, AllSep(n, ""), TRUE, prog),
                  Spec0(fam, "mix1", T, MixSeps(n, 1), TRUE, prog), Spec0(fam, "mix2", T, MixSeps(n, 5), TRUE, prog)>>
        xps == [m \in 1..4 |-> LET T2 == S!ToksProgram(prog, m) IN Spec0(fam, "xp", T2, AllSep(Len(T2), IF m = 3 THEN "" ELSE "sp"), TRUE, prog)]
        nls == IF full THEN [g \in 1..n |-> Spec0(fam, "nl", T, NLAt(n, g + 1), FALSE, prog)] ELSE <<>>
        nla == IF full THEN [k \in 1..NLK |-> Spec0(fam, "nlall", T, NLAll(n, k), FALSE, prog)] ELSE <<>>
        semis == IF full THEN
                    SetToSeq({Spec0(fam, "semi-nl", DropAt(T, j), NLAt(n - 1, j), FALSE, prog) : j \in SemiIdx(T)}
                             \cup {Spec0(fam, "semi-sp", DropAt(T, j), AllSep(n - 1, "sp"), FALSE, prog) : j \in SemiIdx(T)})
                 ELSE <<>>
    IN  base \o xps \o nls \o nla \o semis

(* all cases of a hand-written token sequence *)
SeqCases(fam, T) ==
    LET n == Len(T)
    IN  <<Spec0(fam, "sp", T, AllSep(n, "sp"), FALSE, <<>>), Spec0(fam, "mix1", T, MixSeps(n, 3), FALSE, <<>>), Spec0(fam, "nlall", T, NLAll(n, 1), FALSE, <<>>)>>
        \o [k \in 1..(NLK - 1) |-> Spec0(fam, "nlall", T, NLAll(n, k + 1), FALSE, <<>>)]
        \o [g \in 1..n |-> Spec0(fam, "nl", T, NLAt(n, g + 1), FALSE, <<>>)]

(* family "reasi" (7.8.5, 7.9.1): a regular expression literal whose body    *)
(* starts with a character that also starts or continues a punctuator (the   *)
(* scanner first sees "/=", "/", ">", ...), without and with flags, as the   *)
(* LAST token of a line; the statement is ended only by the line terminator  *)
(* (every kind of it) and the next line starts with a keyword, an identifier,*)
(* "(" or "[" (the last two continue the expression: no insertion).  The     *)
(* division readings a /= b, a / b at the end of a line are the controls.    *)
ReBodies == << <<61>>, <<61, 43>>, <<61, 61>>, <<61, 92, 47>>, <<92, 47>>, <<92, 47, 61>>, <<62>>, <<62, 62, 61>>, <<60, 61>>, <<92, 43>>, <<92, 43, 61>>,
               <<45>>, <<45, 61>>, <<45, 45>>, <<124>>, <<124, 61>>, <<38>>, <<38, 38>>, <<33>>, <<33, 61>>, <<46>>, <<92, 46, 61>>, <<92, 41>>, <<91, 61, 93>>,
               <<91, 47, 93, 61>>, <<37, 61>>, <<94>>, <<94, 61>>, <<92, 42, 61>>, <<58>>, <<44>>, <<59>>, <<92, 63>>, <<97>>, <<126>> >>
ReFlags == << <<>>, <<103>>, <<103, 105, 109>> >>
ReNexts == << <<TK("var"), TI("b"), TP("="), TNum(<<49>>), TP(";")>>, <<TI("b"), TP("="), TNum(<<50>>), TP(";")>>, <<TP("("), TI("b"), TP(")"), TP(";")>>,
              <<TP("["), TI("b"), TP("]"), TP("."), TI("m"), TP(";")>>, <<TK("if"), TP("("), TI("b"), TP(")"), TP(";")>>, <<TK("this"), TP("."), TI("m"), TP(";")>>, <<>> >>
ReHeads == << <<TK("var"), TI("r"), TP("=")>>, <<TI("r"), TP("=")>>, <<TI("f"), TP("("), TI("a"), TP(")"), TP(";")>>, <<TK("typeof")>> >>
ReAsiSeqs ==      \* [T, g]: token sequence and the gap (separator index) right behind the literal
    [x \in (1..Len(ReBodies)) \X (1..Len(ReFlags)) \X (1..Len(ReNexts)) |->
        LET hd == ReHeads[1 + ((x[1] + x[3]) % Len(ReHeads))]
        IN  [T |-> hd \o <<TRe(ReBodies[x[1]], ReFlags[x[2]])>> \o ReNexts[x[3]], g |-> Len(hd) + 2]]
DivAsiSeqs == <<
    [T |-> <<TI("a"), TP("/="), TI("b"), TI("c"), TP(";")>>, g |-> 4], [T |-> <<TI("a"), TP("/="), TI("b"), TK("var"), TI("c"), TP(";")>>, g |-> 4],
    [T |-> <<TI("a"), TP("/="), TI("b"), TP("("), TI("c"), TP(")"), TP(";")>>, g |-> 4], [T |-> <<TI("a"), TP("/="), TI("b"), TP("/"), TI("c"), TP("/"), TI("g"), TP(";")>>, g |-> 4],
    [T |-> <<TI("a"), TP("/"), TI("b"), TI("c"), TP(";")>>, g |-> 4], [T |-> <<TI("a"), TP("="), TI("b"), TP("/="), TI("c"), TP("["), TI("d"), TP("]"), TP(";")>>, g |-> 6],
    [T |-> <<TI("a"), TP("/="), TRe(<<61>>, <<>>), TI("c"), TP(";")>>, g |-> 4], [T |-> <<TI("a"), TP("/="), TRe(<<61, 43>>, <<103>>), TK("var"), TI("c"), TP(";")>>, g |-> 4],
    [T |-> <<TI("a"), TP("/"), TRe(<<61>>, <<>>), TP("."), TI("m"), TK("if"), TP("("), TI("c"), TP(")"), TP(";")>>, g |-> 6],
    [T |-> <<TI("a"), TP("="), TI("b"), TP("/="), TI("c")>>, g |-> 6], [T |-> <<TP("{"), TI("a"), TP("="), TRe(<<61>>, <<>>), TP("}"), TI("c")>>, g |-> 5] >>
NLAtK(n, g, k) == [i \in 1..(n + 1) |-> IF i = g THEN S!NLSeps[k] ELSE IF i = 1 \/ i = n + 1 THEN "" ELSE "sp"]
MinNLAtK(n, g, k) == [i \in 1..(n + 1) |-> IF i = g THEN S!NLSeps[k] ELSE ""]
ReAsiCases(fam, c) ==
    LET T == c.T  n == Len(T)
    IN  <<Spec0(fam, "sp", T, AllSep(n, "sp"), FALSE, <<>>), Spec0(fam, "min", T, AllSep(n, ""), FALSE, <<>>), Spec0(fam, "nlall", T, NLAll(n, 1), FALSE, <<>>)>>
        \o [k \in 1..NLK |-> Spec0(fam, "nl-after-literal", T, NLAtK(n, c.g, k), FALSE, <<>>)]
        \o [k \in 1..NLK |-> Spec0(fam, "nl-after-literal-min", T, MinNLAtK(n, c.g, k), FALSE, <<>>)]

(* family "lc" (7.8.4): every LineContinuation form x its position in the     *)
(* literal x both quotes; a LineContinuation contributes nothing to the SV   *)
LTForms == << <<10>>, <<13>>, <<13, 10>>, <<8232>>, <<8233>> >>
LCo(j) == <<92>> \o LTForms[j]
LcShapes(a, b) ==       \* literal contents built from the continuations a and b
    << a \o <<97, 98>>, <<97>> \o a \o <<98>>, <<97, 98>> \o a, a, <<97>> \o a \o b \o <<98>>, a \o b, <<97, 98>> \o a \o b,
       <<92, 110>> \o a \o <<98>>, <<92, 120, 52, 49>> \o a, <<92, 117, 48, 48, 52, 49>> \o a \o <<98>>, <<92, 48>> \o a, <<92, 92>> \o a,
       <<97>> \o a \o <<92, 110>>, a \o <<92, 120, 52, 49>>, <<97>> \o a \o <<92, 92>>, a \o <<92, 39>>, a \o <<92, 34>>, <<97>> \o a \o <<110>>,
       <<97>> \o a \o <<32>>, <<32>> \o a, <<97>> \o a \o <<10>>, <<97>> \o a \o <<13>>, <<97, 92, 13, 92, 10, 98>>, <<233>> \o a \o <<233>> >>
NLcShapes == 24
LcToks ==
    [x \in (1..Len(LTForms)) \X (1..Len(LTForms)) \X (1..NLcShapes) \X {34, 39} |->
        TStr(<<x[4]>> \o LcShapes(LCo(x[1]), LCo(x[2]))[x[3]] \o <<x[4]>>)]
LcSel == {x \in DOMAIN LcToks : x[2] = x[1] \/ x[3] \in {5, 6, 7}}      \* the second form matters only for the two-continuation shapes
LcSeq == SetToSeq(LcSel)

(* a lexical case: the text is given; the tokens carry their own nl flags *)
LexSpec(c) == [fam |-> "lex", tag |-> c.name, T |-> c.toks, src |-> c.src,
               T2 |-> IF c.alt # <<>> /\ c.alt[1].d \in OpenDev THEN c.alt[1].toks ELSE c.toks]

-----------------------------------------------------------------------------
(* Blocks (initial states) and cases (successors).  Fams: the families to    *)
(* run; a block is <<family, index>>.  FullMod: in family e2 every tree gets *)
(* the white-space / parenthesis renderings, and the trees with              *)
(* (index + Salt) % FullMod = 0 also a line terminator in every gap.         *)
None == [t |-> "none"]
PosSeq == SetToSeq(Positions)
Sub(S0) == IF NSel = 0 \/ NSel >= Cardinality(S0) THEN S0 ELSE RandomSubset(NSel, S0)
KB == 32
BlocksOf(f) ==
    CASE f = "e1" -> {<<f, 1>>}
      [] f \in {"e2", "e3", "prim"} -> {<<f, j>> : j \in 1..Len(PosSeq)}
      [] OTHER -> {<<f, j>> : j \in 1..KB}
Init == cs = None /\ blk \in UNION {BlocksOf(f) : f \in Fams}
Next ==
    /\ cs = None
    /\ UNCHANGED blk
    /\ LET fam == blk[1]  bi == blk[2] IN
       CASE fam = "e1" -> \E fi \in 1..NF : cs' = [t |-> "expr", fam |-> fam, e |-> Tree1(fi), full |-> TRUE]
         [] fam = "e2" -> LET fp == PosSeq[bi] IN
                \E gi \in {g \in 1..NF : ValidAt(Forms[fp[1]], fp[2], Forms[g])} :
                    cs' = [t |-> "expr", fam |-> fam, e |-> Tree2(fp[1], fp[2], gi), full |-> (bi + gi + Salt) % FullMod = 0]
         [] fam = "e3" -> LET fp == PosSeq[bi] IN
                \E x \in Sub({y \in (1..NF) \X (1..3) \X (1..NF) :
                                /\ y[2] <= Arity(Forms[y[1]]) /\ ValidAt(Forms[fp[1]], fp[2], Forms[y[1]])
                                /\ ValidAt(Forms[y[1]], y[2], Forms[y[3]])}) :
                    cs' = [t |-> "expr", fam |-> fam, e |-> Tree3(fp[1], fp[2], x[1], x[2], x[3]), full |-> FullMod = 1]
         [] fam = "prim" -> LET fp == PosSeq[bi] IN
                \E pi \in 1..Len(Prims) : ~TargetPos(Forms[fp[1]], fp[2])
                    /\ cs' = [t |-> "expr", fam |-> fam, e |-> TreeP(fp[1], fp[2], pi), full |-> FALSE]
         [] fam = "stmt" -> \E j \in {x \in 1..Len(StmtPool) : x % KB = bi - 1} : cs' = [t |-> "prog", fam |-> fam, p |-> StmtPool[j], full |-> TRUE]
         [] fam = "nest" -> \E w \in 1..Len(Wrappers), j \in 1..Len(SimpleStmts) :
                /\ (w * 31 + j) % KB = bi - 1 /\ NestOK(Wrappers[w], SimpleStmts[j])
                /\ cs' = [t |-> "prog", fam |-> fam, p |-> Wrap(Wrappers[w], SimpleStmts[j]), full |-> TRUE]
         [] fam = "seq" -> \E j \in {x \in 1..Len(SeqPool) : x % KB = bi - 1} : cs' = [t |-> "seq", fam |-> fam, T |-> SeqPool[j]]
         [] fam = "lit" -> \E j \in {x \in 1..Len(LitToks) : x % KB = bi - 1} : cs' = [t |-> "seq1", fam |-> fam, T |-> LitProgram(LitToks[j])]
         [] fam = "key" -> \E j \in {x \in 1..Len(KeyToks) : x % KB = bi - 1} : cs' = [t |-> "seq1", fam |-> fam, T |-> KeyProgram(KeyToks[j])]
         [] fam = "reasi" -> \E x \in {y \in DOMAIN ReAsiSeqs : (y[1] + y[2] * 7 + y[3] * 3) % KB = bi - 1} : cs' = [t |-> "reasi", fam |-> fam, c |-> ReAsiSeqs[x]]
         [] fam = "divasi" -> \E j \in {x \in 1..Len(DivAsiSeqs) : x % KB = bi - 1} : cs' = [t |-> "reasi", fam |-> fam, c |-> DivAsiSeqs[j]]
         [] fam = "lc" -> \E j \in {x \in 1..Len(LcSeq) : x % KB = bi - 1}, m \in 1..2 :
                              cs' = [t |-> "seq1", fam |-> fam, T |-> IF m = 1 THEN LitProgram(LcToks[LcSeq[j]]) ELSE KeyProgram(LcToks[LcSeq[j]])]
         [] fam = "long" -> \E j \in {x \in 1..Len(LongToks) : x % KB = bi - 1} : cs' = [t |-> "seq1", fam |-> fam, T |-> LitProgram(LongToks[j])]
         [] fam = "rw" -> \E j \in {x \in 1..Len(RwSeq) : x % KB = bi - 1}, m \in 1..NRwP : cs' = [t |-> "seq1", fam |-> fam, T |-> RwPrograms(RwSeq[j])[m]]
         [] fam = "lex" -> \E j \in {x \in 1..Len(LexPool) : x % KB = bi - 1} : cs' = [t |-> "lex", fam |-> fam, c |-> LexPool[j]]

Lines(c) ==
    CASE c.t = "expr" -> LET ps == ExprPrograms(c.e) IN
                          TreeCases(c.fam, ps[1], c.full) \o (IF Len(ps) > 1 THEN TreeCases(c.fam, ps[2], FALSE) \o TreeCases(c.fam, ps[3], FALSE) ELSE <<>>)
      [] c.t = "prog" -> TreeCases(c.fam, c.p, c.full)
      [] c.t = "seq" -> SeqCases(c.fam, c.T)
      [] c.t = "reasi" -> ReAsiCases(c.fam, c.c)
      [] c.t = "seq1" -> <<Spec0(c.fam, "sp", c.T, AllSep(Len(c.T), "sp"), FALSE, <<>>), Spec0(c.fam, "min", c.T, AllSep(Len(c.T), ""), FALSE, <<>>)>>
      [] c.t = "lex" -> <<LexSpec(c.c)>>
(* a lexical case carries its own text and flags: separators empty, tokens as given *)
Line(sp) ==
    IF "src" \in DOMAIN sp
    THEN LET es == Out(S!Classify(sp.T))
             el == Out(L!Classify(sp.T2))
         IN  [fam |-> sp.fam, tag |-> sp.tag, src |-> sp.src, exp |-> es, dev |-> IF el = es THEN <<>> ELSE <<el>>, bug |-> ""]
    ELSE Case(sp)
Emit ==
    cs = None \/ LET ls == Lines(cs) IN \A j \in 1..Len(ls) : PrintT("VJSON " \o ToJson(Line(ls[j])))
=============================================================================
