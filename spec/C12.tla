-------------------------------- MODULE C12 ---------------------------------
(* Generator for property C12 (Date arithmetic).  Every state is one case:   *)
(* the invariant Emit prints the JavaScript text of the case (parts) and the *)
(* completion value spec/DateSpec.tla prescribes for it.  Families:          *)
(*   inst   new Date(t) observed through every UTC and local accessor,       *)
(*          toISOString, toJSON, getTime, valueOf - t on calendar            *)
(*          boundaries (year blocks), special values, uniform random         *)
(*   utc    Date.UTC(fields) and new Date(fields): pairwise over a boundary  *)
(*          value list, year values x month x date, argument counts, random  *)
(*   set    sequences of 1..3 setUTCxxx / setxxx / setTime calls from a start *)
(*          instant: every returned value and the final observation          *)
(*   parse  Date.parse of the ISO text the SPECIFICATION produces for t;     *)
(*   rt     Date.parse(new Date(t).toISOString());                           *)
(*          and parse of every combination of format fragments (C12Str)      *)
(*   conv   unconverted arguments (primitives, scripted conversion objects): *)
(*          Date.UTC, new Date(a, b..), new Date(v), setters - result, order *)
(*          of the valueOf/toString calls, abrupt completions                *)
(*   this   every Date.prototype method on a this value that is not a Date;  *)
(*          the generic toJSON on scripted objects; Date.prototype itself    *)
EXTENDS NumText, C12Str, Json, TLC, SequencesExt, Randomization
CONSTANTS OpenDev,       \* ids of open findings
          Fams,          \* families to generate
          NRand,         \* random cases per random block
          NRandBlk,      \* random blocks per random family
          NSeq2, NSeq3,  \* random continuations (length 2 / 3) per (start, first setter) ...
          SeqEvery, Seed,\* ... for the blocks k with (k + Seed) % SeqEvery = 0
          FmtEvery,      \* format-fragment blocks k with (k + Seed) % FmtEvery = 0 are generated
          NBase          \* base tuples of the pairwise Date.UTC family (1 or 2)
VARIABLES blk, cs

S == INSTANCE DateSpec WITH Dev <- {}
L == INSTANCE DateSpec WITH Dev <- OpenDev

MsPerDay == 86400000
TVal(day, ms) == NumAdd(NumMul(S!NInt(day), I(MsPerDay)), S!NInt(ms))     \* day * msPerDay + ms, exact
MonthDay0(y, m) == S!DayFromYear(y) + S!MonthStart(m, S!InLeapYear(y))    \* day number of y-(m+1)-01
YMD(y, m, d, ms) == TVal(MonthDay0(y, m) + d - 1, ms)

Half    == Canon(FALSE, <<1>>, -1)
NegHalf == Canon(TRUE, <<1>>, -1)
Dec(neg, d, q) == DecToNum(neg, BnFromInt(d), q)
MaxT == S!MaxTime

-----------------------------------------------------------------------------
(* family inst *)
Years == <<-271821, -271820, -200000, -100000, -10000, -9999, -2000, -401, -400, -399, -101, -100, -99, -5, -4,
           -1, 0, 1, 4, 99, 100, 400, 1000, 1582, 1600, 1601, 1700, 1899, 1900, 1901, 1968, 1969, 1970, 1971,
           1972, 1973, 1999, 2000, 2001, 2004, 2037, 2038, 2099, 2100, 2101, 2400, 9999, 10000, 99999, 100000,
           275759, 275760>>
YearInstants(y) ==
    UNION {LET d0 == MonthDay0(y, m)
           IN  {TVal(d0, -1), TVal(d0, 0), TVal(d0, 1), TVal(d0, 45296789), TVal(d0 + 27, 0), TVal(d0 + 27, 86399999),
                TVal(d0 + 28, 0), TVal(d0 + 29, 3599999), TVal(d0 + 30, 86399999)} : m \in 0..11}
Specials ==
    {NaN, PInf, NInf, I(0), NZero, I(1), I(-1), Half, NegHalf, Dec(FALSE, 15, -1), Dec(TRUE, 15, -1),
     Dec(FALSE, 9999, -1), Dec(TRUE, 9999, -1), Dec(TRUE, 10005, -1), Dec(FALSE, 19999999, -4),
     Canon(FALSE, <<1>>, -1074), Dec(FALSE, 1, -300),
     I(999), I(1000), I(-999), I(-1000), I(-1001), I(59999), I(60000), I(3599999), I(3600000), I(86399999), I(86400000),
     I(-86400000), I(-86400001), MaxT, NumNeg(MaxT)}
    \cup {NumAdd(MaxT, I(k)) : k \in {-86400000, -1, 1, 2, 1000, 86400000}}
    \cup {NumSub(NumNeg(MaxT), I(k)) : k \in {-86400000, -1, 1, 2, 1000, 86400000}}
    \cup {Dec(FALSE, 1, 16), Dec(TRUE, 1, 16), Canon(FALSE, <<1>>, 53), NumAdd(Canon(FALSE, <<1>>, 53), I(2)),
          Dec(FALSE, 3, 16), Dec(TRUE, 3, 16), Dec(FALSE, 1, 17), Dec(TRUE, 1, 17)}
RandomInstants == {TVal(d, RandomElement(0..86399999)) : d \in RandomSubset(NRand, -100000000..99999999)}

-----------------------------------------------------------------------------
(* family utc *)
FV == <<NaN, PInf, NInf, I(-1000000), I(-13), I(-12), I(-1), NegHalf, I(0), Dec(FALSE, 9, -1), I(1), Dec(FALSE, 15, -1),
        I(11), I(12), I(13), I(28), I(29), I(30), I(31), I(32), I(59), I(60), I(99), Dec(FALSE, 995, -1), I(100), I(1000000)>>
Base == <<<<I(2000), I(0), I(1), I(0), I(0), I(0), I(0)>>, <<I(-1), I(11), I(31), I(23), I(59), I(59), I(999)>>>>
PairSeq == SetToSeq({p \in (1..7) \X (1..7) : p[1] < p[2]})
NFV == Len(FV)
YV == <<I(-1000000), I(-271822), I(-271821), I(-10000), I(-100), I(-1), NZero, I(0), I(1), I(49), I(50), I(69), I(70),
        I(99), I(100), I(101), I(1899), I(1900), I(1969), I(1970), I(1972), I(2000), I(2100), I(9999), I(10000),
        I(275760), I(275761), I(1000000), Dec(FALSE, 995, -1), Dec(FALSE, 999, -1), NegHalf, Dec(TRUE, 9, -1), Half,
        Dec(FALSE, 1005, -1), Dec(TRUE, 15, -1), NaN, PInf>>
YMonths == {I(-13), I(-1), I(0), I(1), I(11), I(12), I(25)}
YDates == {I(-1), I(0), I(1), I(29), I(31), I(366)}
Rnd(lo, hi) == I(RandomElement(lo..hi))
(* wide components: a single field may carry the whole time value (ms up to 8.64e15, ...) *)
Big(a, b) == NumAdd(NumMul(I(a), I(1000000)), I(b))          \* a * 10^6 + b, exact
WideMs   == {Big(9223372, 36854), Big(9223372, 36855), Big(10000000, 0), Big(-10000000, 0), Big(-9223372, -36855), MaxT, NumNeg(MaxT),
             NumAdd(MaxT, I(1)), NumMul(I(4000), Big(1000000, 0)), NumSub(MaxT, I(946684800)), NumAdd(Big(9223372, 36854), Half)}
WideSec  == {Big(8640000, 0), Big(-8640000, 0), Big(8640000, 1), Big(9223, 372037), Big(10800000, 1), Big(-10800000, -1)}
WideMin  == {Big(144000, 0), Big(-144000, 0), Big(144000, 1), Big(180000, 1), Big(-180000, -1)}
WideHour == {Big(2400, 0), Big(-2400, 0), Big(2400, 1), Canon(FALSE, <<1>>, 31), Canon(FALSE, <<1>>, 32), Big(3000, 1), Big(-3000, -1)}
WideDay  == {I(100000001), I(100000002), I(-99999999), I(-100000000), I(1000000000)}
WideAt(p) == CASE p = 3 -> WideDay [] p = 4 -> WideHour [] p = 5 -> WideMin [] p = 6 -> WideSec [] p = 7 -> WideMs
Epoch7 == <<I(1970), I(0), I(1), I(0), I(0), I(0), I(0)>>
WideTuples ==
    UNION {UNION {{[x \in 1..7 |-> IF x = p THEN w ELSE Epoch7[x]], [x \in 1..7 |-> IF x = p THEN w ELSE Base[2][x]]} : w \in WideAt(p)} : p \in 3..7}
    \cup {<<I(1970), I(0), I(-99999999), I(0), I(0), I(0), w>> : w \in WideMs}           \* a large ms against a large negative day
    \cup {<<I(275760), I(8), I(13), I(0), I(0), I(0), NumNeg(w)>> : w \in WideMs}
    \cup {<<I(1970), I(0), I(-99999999), h, I(0), I(0), I(1)>> : h \in WideHour}              \* MakeTime above 2^53, result in range
    \cup {<<I(1970), I(0), I(-99999999), I(0), m, I(0), I(1)>> : m \in WideMin}
    \cup {<<I(1970), I(0), I(-99999999), I(0), I(0), x, I(1)>> : x \in WideSec}
    \cup {<<I(1970), I(0), I(100000001), h, I(0), I(0), I(-1)>> : h \in WideHour}
RandomTuple(i) ==
    <<IF i % 3 = 0 THEN Rnd(-1000000, 1000000) ELSE Rnd(-280000, 280000),
      IF i % 2 = 0 THEN Rnd(-1000000, 1000000) ELSE Rnd(-24, 36),
      IF i % 5 = 0 THEN Rnd(-1000000, 1000000) ELSE Rnd(-40, 400),
      Rnd(-1000000, 1000000), Rnd(-1000000, 1000000), Rnd(-1000000, 1000000), Rnd(-1000000, 1000000)>>

-----------------------------------------------------------------------------
(* family set *)
T0 == <<NaN, I(0), I(-1), I(86399999), YMD(2000, 1, 29, 45296789), YMD(1972, 11, 31, 86399999), YMD(1969, 11, 31, 0),
        YMD(0, 2, 1, 0), YMD(-1, 11, 31, 86399999), YMD(9999, 11, 31, 86399999), YMD(10000, 0, 1, 0), YMD(2100, 1, 28, 1),
        YMD(1900, 2, 1, 0), YMD(2001, 0, 31, 43200000), YMD(2038, 0, 19, 11647000), YMD(275760, 8, 12, 1), MaxT, NumNeg(MaxT),
        YMD(-271821, 3, 20, 1), YMD(1582, 9, 10, 1), YMD(-400, 1, 29, 86399999), YMD(2004, 11, 31, 1), YMD(1, 0, 1, 0)>>
SV == <<NaN, PInf, I(-1000000), I(-61), I(-1), NZero, I(0), I(1), Dec(FALSE, 19, -1), Dec(TRUE, 19, -1), I(11), I(12), I(23),
        I(24), I(28), I(29), I(31), I(32), I(59), I(60), I(99), I(100), I(999), I(1000), I(1970), I(2000), I(1000000)>>
Op(m, a) == [m |-> m, a |-> a]
Names1 == {"Milliseconds", "Seconds", "Minutes", "Hours", "Date", "Month", "FullYear"}
Names2 == {"Seconds", "Minutes", "Hours", "Month", "FullYear"}
Names3 == {"Minutes", "Hours", "FullYear"}
Pfx == {"setUTC", "set"}
OpSet ==
    {Op(p \o n, <<SV[i]>>) : p \in Pfx, n \in Names1, i \in 1..Len(SV)}
    \cup {Op(p \o n, <<>>) : p \in Pfx, n \in Names1}
    \cup {Op(p \o n, <<x, y>>) : p \in Pfx, n \in Names2, x \in {I(0), I(5), I(-1)}, y \in {I(-1), I(0), I(60), NaN}}
    \cup {Op(p \o n, <<I(5), y, z>>) : p \in Pfx, n \in Names3, y \in {I(0), I(59), I(-1)}, z \in {I(0), I(999), I(1000), NaN}}
    \cup {Op(p \o "Hours", <<I(7), I(8), y, z>>) : p \in Pfx, y \in {I(9), I(60)}, z \in {I(-1), I(1000), NaN}}
    \cup {Op("setTime", <<x>>) : x \in {NaN, I(0), Dec(TRUE, 15, -1), MaxT, NumAdd(MaxT, I(1)), NumNeg(MaxT), YMD(2000, 0, 1, 0)}}
    \cup {Op("setTime", <<>>)}
    \cup {Op(p \o "Milliseconds", <<w>>) : p \in Pfx, w \in WideMs}
    \cup {Op(p \o "Seconds", <<I(0), w>>) : p \in Pfx, w \in WideMs}
    \cup {Op("setUTCHours", <<I(0), I(0), I(0), w>>) : w \in WideMs}
    \cup {Op("setUTCSeconds", <<w>>) : w \in WideSec} \cup {Op("setUTCMinutes", <<w>>) : w \in WideMin}
    \cup {Op("setUTCHours", <<w>>) : w \in WideHour} \cup {Op("setUTCDate", <<w>>) : w \in WideDay}
OpSeq == SetToSeq(OpSet)
NOps == Len(OpSeq)

-----------------------------------------------------------------------------
(* families parse / rt: the instants of a few year blocks *)
ParseYears == <<-271821, -10000, -1, 0, 1, 99, 1900, 1969, 1970, 2000, 2038, 9999, 10000, 275760>>
InRange(t) == S!NumLe(S!NumAbs(t), MaxT)

-----------------------------------------------------------------------------
(* family conv *)
RetP(v) == [k |-> "ret", v |-> v]
CObj(id, vo, ts) == [t |-> "cobj", id |-> id, vo |-> vo, ts |-> ts]
CObjs == <<CObj(1, RetP(IntV(7)), RetP(StrV(<<55>>))),
           CObj(2, [k |-> "inherit"], [k |-> "inherit"]),
           CObj(3, [k |-> "retobj"], RetP(StrV(<<50, 48>>))),
           CObj(4, [k |-> "retobj"], [k |-> "retobj"]),
           CObj(5, [k |-> "throw"], RetP(StrV(<<120>>))),
           CObj(7, [k |-> "noncallable"], RetP(BoolV(TRUE)))>>
CV == <<IntV(5), NumV(NaN), NumV(PInf), StrV(<<49, 50>>), StrV(<<120>>), BoolV(TRUE), Null, Undef>> \o CObjs
NCV == Len(CV)
S_iso2000 == S!ToISO(YMD(2000, 0, 1, 0))
NewVals == {Undef, Null, BoolV(TRUE), BoolV(FALSE), NumV(Dec(FALSE, 55, -1)), NumV(NaN), NumV(NumAdd(MaxT, I(1))),
            StrV(S_iso2000), StrV(<<49, 57, 55, 48, 45, 48, 49, 45, 48, 50>>),           \* "1970-01-02"
            CObjs[1], CObjs[4], CObjs[5], CObjs[6], CObj(8, RetP(Null), RetP(Undef)),
            CObj(9, [k |-> "retobj"], RetP(StrV(S_iso2000))), CObj(6, RetP(StrV(S_iso2000)), [k |-> "throw"])}
ConvSetters2 == <<"setUTCHours", "setHours", "setUTCFullYear", "setFullYear", "setUTCSeconds", "setUTCMonth", "setMinutes",
                  "setUTCDate", "setTime", "setMilliseconds">>
ConvT0 == <<I(0), NaN>>

(* family this *)
Methods == {"toString", "toDateString", "toTimeString", "toLocaleString", "toLocaleDateString", "toLocaleTimeString",
            "valueOf", "getTime", "getFullYear", "getUTCFullYear", "getMonth", "getUTCMonth", "getDate", "getUTCDate",
            "getDay", "getUTCDay", "getHours", "getUTCHours", "getMinutes", "getUTCMinutes", "getSeconds", "getUTCSeconds",
            "getMilliseconds", "getUTCMilliseconds", "getTimezoneOffset", "setTime", "setMilliseconds", "setUTCMilliseconds",
            "setSeconds", "setUTCSeconds", "setMinutes", "setUTCMinutes", "setHours", "setUTCHours", "setDate", "setUTCDate",
            "setMonth", "setUTCMonth", "setFullYear", "setUTCFullYear", "toUTCString", "toISOString"}
ThisVals == {[js |-> "undefined", cls |-> "none"], [js |-> "null", cls |-> "none"], [js |-> "1", cls |-> "Number"],
             [js |-> "'2000-01-01'", cls |-> "String"], [js |-> "true", cls |-> "Boolean"], [js |-> "{}", cls |-> "Object"],
             [js |-> "[]", cls |-> "Array"], [js |-> "Object.create(Date.prototype)", cls |-> "Object"],
             [js |-> "new Number(0)", cls |-> "Number"], [js |-> "Date", cls |-> "Function"]}
JObj(id, vo, ts, iso) == [t |-> "cobj", id |-> id, vo |-> vo, ts |-> ts, iso |-> iso]
Inh == [k |-> "inherit"]
JsonObjs ==
    {JObj(1, vo, Inh, iso) :
        vo \in {Inh, RetP(IntV(5)), RetP(NumV(NaN)), RetP(NumV(PInf)), RetP(NumV(NInf)), RetP(StrV(S_NaN)), RetP(StrV(<<53>>)),
                RetP(Null), RetP(Undef), RetP(BoolV(TRUE)), [k |-> "throw"], [k |-> "retobj"], [k |-> "noncallable"]},
        iso \in {RetP(IntV(42)), RetP(StrV(<<120>>)), RetP(Undef), [k |-> "throw"], [k |-> "noncallable"], [k |-> "absent"]}}
    \cup {JObj(2, [k |-> "retobj"], ts, iso) :
        ts \in {RetP(StrV(<<120>>)), RetP(NumV(NaN)), RetP(IntV(1)), [k |-> "retobj"], [k |-> "throw"]},
        iso \in {RetP(IntV(42)), [k |-> "absent"]}}
    \cup {[t |-> "none", js |-> "undefined"], [t |-> "none", js |-> "null"]}

-----------------------------------------------------------------------------
Lit(v) == [lit |-> v]
RECURSIVE Args(_, _)
Args(a, i) == IF i > Len(a) THEN <<>>
              ELSE (IF i > 1 THEN <<",">> ELSE <<>>) \o <<Lit(NumV(a[i]))>> \o Args(a, i + 1)
RECURSIVE VArgs(_, _)
VArgs(a, i) == IF i > Len(a) THEN <<>>
               ELSE (IF i > 1 THEN <<",">> ELSE <<>>) \o <<Lit(a[i])>> \o VArgs(a, i + 1)
RECURSIVE OpsJs(_, _)
OpsJs(ops, i) == IF i > Len(ops) THEN <<>>
                 ELSE <<"TV(d." \o ops[i].m \o "(">> \o Args(ops[i].a, 1) \o <<")),">> \o OpsJs(ops, i + 1)

Js(c) ==
    CASE c.fam = "inst" -> <<"var d = new Date(", Lit(NumV(c.t)), "); [OBS(d), OBSL(d)]">>
      [] c.fam = "utc"  -> <<"[TV(Date.UTC(">> \o Args(c.a, 1) \o <<")), OBS(new Date(">> \o Args(c.a, 1) \o <<"))]">>
      [] c.fam = "set"  -> <<"var d = new Date(", Lit(NumV(c.t)), "); [">> \o OpsJs(c.ops, 1) \o <<"OBS(d)]">>
      [] c.fam = "parse" -> <<"TV(Date.parse(", Lit(StrV(c.s)), "))">>
      [] c.fam = "rt"   -> <<"TV(Date.parse(new Date(", Lit(NumV(c.t)), ").toISOString()))">>
      [] c.fam = "cutc"  -> <<"TV(Date.UTC(">> \o VArgs(c.vs, 1) \o <<"))">>
      [] c.fam = "cctor" -> <<"TV(new Date(">> \o VArgs(c.vs, 1) \o <<").getTime())">>
      [] c.fam = "cnew"  -> <<"TV(new Date(", Lit(c.v), ").getTime())">>
      [] c.fam = "cset"  -> <<"var d = new Date(", Lit(NumV(c.t)), "); [TRYV(function(){ return TV(d." \o c.m \o "(">> \o VArgs(c.vs, 1) \o <<")); }), TV(d.getTime())]">>
      [] c.fam = "this"  -> <<"Date.prototype." \o c.m \o ".call(" \o c.js \o ", 1)">>
      [] c.fam = "json"  -> IF c.o.t = "none" THEN <<"Date.prototype.toJSON.call(" \o c.o.js \o ")">>
                            ELSE <<"Date.prototype.toJSON.call(MKJ(", Lit(c.o.id), ",", Lit(c.o.vo), ",", Lit(c.o.ts), ",", Lit(c.o.iso), "))">>
      [] c.fam = "proto" -> <<"OBS(Date.prototype)">>

-----------------------------------------------------------------------------
None == [fam |-> "none"]
Blocks ==
    (IF "inst" \in Fams THEN {<<"year", i>> : i \in 1..Len(Years)} \cup {<<"special", 0>>} \cup {<<"rand", i>> : i \in 1..NRandBlk} ELSE {})
    \cup (IF "utc" \in Fams THEN {<<"utcp", k>> : k \in 1..(NBase * Len(PairSeq) * NFV)} \cup {<<"utcy", k>> : k \in 1..Len(YV)}
                                 \cup {<<"utcn", n>> : n \in 2..7} \cup {<<"utcw", 0>>} \cup {<<"utcr", i>> : i \in 1..NRandBlk} ELSE {})
    \cup (IF "set" \in Fams THEN {<<"set", k>> : k \in 1..(Len(T0) * NOps)} ELSE {})
    \cup (IF "conv" \in Fams THEN {<<"cutc", i>> : i \in 1..NCV} \cup {<<"cctor", 0>>, <<"cnew", 0>>}
                                  \cup {<<"cset", k>> : k \in 1..(Len(ConvSetters2) * Len(ConvT0))} ELSE {})
    \cup (IF "this" \in Fams THEN {<<"this", 0>>, <<"json", 0>>} ELSE {})
    \cup (IF "self" \in Fams THEN {<<"special", 0>>, <<"year", 38>>} ELSE {})
    \cup (IF "parse" \in Fams THEN {<<"parse", i>> : i \in 1..Len(ParseYears)} \cup {<<"fmt", k>> : k \in {x \in 1..(Len(FmtYears) * Len(FmtMD)) : (x + Seed) % FmtEvery = 0}} ELSE {})

Utc(a) == [fam |-> "utc", a |-> a]
Cases(b) ==
    LET k == b[2]
    IN  CASE b[1] = "year" -> {[fam |-> "inst", t |-> t] : t \in YearInstants(Years[k])}
          [] b[1] = "special" -> {[fam |-> "inst", t |-> t] : t \in Specials}
          [] b[1] = "rand" -> {[fam |-> "inst", t |-> t] : t \in RandomInstants}
          [] b[1] = "utcp" ->
                (LET bi == (k - 1) \div (Len(PairSeq) * NFV) + 1
                     r  == (k - 1) % (Len(PairSeq) * NFV)
                     p  == PairSeq[r \div NFV + 1]
                     vi == FV[(r % NFV) + 1]
                     i1 == p[1]
                     i2 == p[2]
                 IN  {Utc([x \in 1..7 |-> IF x = i1 THEN vi ELSE IF x = i2 THEN FV[j] ELSE Base[bi][x]]) : j \in 1..NFV})
          [] b[1] = "utcy" -> {Utc(<<YV[k], m, d>>) : m \in YMonths, d \in YDates} \cup {Utc(<<YV[k], m>>) : m \in YMonths}
          [] b[1] = "utcn" -> {Utc(SubSeq(Base[2], 1, k - 1) \o <<FV[j]>>) : j \in 1..NFV}
                              \cup {Utc(SubSeq(Base[1], 1, k - 1) \o <<FV[j]>>) : j \in 1..NFV}
          [] b[1] = "utcw" -> {Utc(a) : a \in WideTuples}
          [] b[1] = "utcr" -> {Utc(RandomTuple(i)) : i \in 1..NRand}
          [] b[1] = "set" ->
                (LET t0 == T0[(k - 1) \div NOps + 1]
                     o1 == OpSeq[((k - 1) % NOps) + 1]
                 IN  {[fam |-> "set", t |-> t0, ops |-> <<o1>>]}
                     \cup (IF (k + Seed) % SeqEvery # 0 THEN {}
                           ELSE {[fam |-> "set", t |-> t0, ops |-> <<o1, OpSeq[j]>>] : j \in RandomSubset(NSeq2, 1..NOps)}
                                \cup {[fam |-> "set", t |-> t0, ops |-> <<o1, OpSeq[(r - 1) \div NOps + 1], OpSeq[((r - 1) % NOps) + 1]>>] :
                                         r \in RandomSubset(NSeq3, 1..(NOps * NOps))}))
          [] b[1] = "cutc" -> {[fam |-> "cutc", vs |-> <<CV[k], CV[i], CV[j]>>] : i \in 1..NCV, j \in 1..NCV}
                              \cup {[fam |-> "cutc", vs |-> <<CV[k], CV[i]>>] : i \in 1..NCV}
          [] b[1] = "cctor" -> {[fam |-> "cctor", vs |-> <<CV[i], CV[j]>>] : i \in 1..NCV, j \in 1..NCV}
                               \cup {[fam |-> "cctor", vs |-> <<IntV(2000), CV[i], CV[j]>>] : i \in 1..NCV, j \in 1..NCV}
          [] b[1] = "cnew" -> {[fam |-> "cnew", v |-> v] : v \in NewVals}
          [] b[1] = "cset" ->
                (LET m  == ConvSetters2[(k - 1) \div Len(ConvT0) + 1]
                     t0 == ConvT0[((k - 1) % Len(ConvT0)) + 1]
                 IN  {[fam |-> "cset", m |-> m, t |-> t0, vs |-> <<CV[i], CV[j]>>] : i \in 1..NCV, j \in 1..NCV}
                     \cup {[fam |-> "cset", m |-> m, t |-> t0, vs |-> <<CV[i]>>] : i \in 1..NCV})
          [] b[1] = "this" -> {[fam |-> "this", m |-> m, js |-> tv.js, cls |-> tv.cls] : m \in Methods, tv \in ThisVals}
                              \cup {[fam |-> "proto"]}
          [] b[1] = "json" -> {[fam |-> "json", o |-> o] : o \in JsonObjs}
          [] b[1] = "parse" ->
                (LET ts == {t \in YearInstants(ParseYears[k]) : InRange(t)}
                 IN  {[fam |-> "parse", s |-> S!ToISO(t)] : t \in ts} \cup {[fam |-> "rt", t |-> t] : t \in ts})
          [] b[1] = "fmt" ->
                (LET y  == FmtYears[(k - 1) \div Len(FmtMD) + 1]
                     md == FmtMD[((k - 1) % Len(FmtMD)) + 1]
                 IN  {[fam |-> "parse", s |-> y \o md]}
                     \cup {[fam |-> "parse", s |-> y \o md \o FmtTime[i] \o FmtTZ[j]] : i \in 2..Len(FmtTime), j \in 1..Len(FmtTZ)})

Init == blk \in Blocks /\ cs = None
Next == cs = None /\ UNCHANGED blk /\ \E c \in Cases(blk) : cs' = c

Emit ==
    cs = None \/
    LET es == S!Eval(cs)
        ed == L!Eval(cs)
    IN  PrintT("VJSON " \o ToJson([c |-> cs, js |-> Js(cs), exp |-> es, dev |-> IF ed = es THEN <<>> ELSE <<ed>>]))
=============================================================================
